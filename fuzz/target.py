#!/venv/bin/python
"""atheris (libFuzzer) targets for C20 and C06.  Run by lib/vfuzz.py as

    fuzz/target.py --mode c20|c06 --stats FILE [libFuzzer args ...] CORPUS_DIR

The semantic oracle is inside the target: an oracle failure raises, libFuzzer
stores the input as a crash artefact, and the calling check turns it into a
JSON replay case that runs without atheris."""
import json
import os
import sys
import time

HERE = os.path.dirname(os.path.abspath(__file__))
VERIF = os.path.dirname(HERE)
REPO_SRC = os.environ.get("VERIF_REPO_SRC", "/repo/src")
for p in (os.path.join(VERIF, "plugins"), os.path.join(VERIF, ".deps"), os.path.join(VERIF, "lib"), VERIF, REPO_SRC):
    if p in sys.path:
        sys.path.remove(p)
    sys.path.insert(0, p)
sys.dont_write_bytecode = True

import logging  # noqa: E402
import warnings  # noqa: E402

logging.disable(logging.CRITICAL)
warnings.simplefilter("ignore")

import atheris  # noqa: E402

import vclock  # noqa: E402

vclock.install()
with atheris.instrument_imports(include=["puresnmp", "puresnmp_plugins", "x690"]):
    import puresnmp  # noqa: F401
    import x690  # noqa: F401
    import puresnmp.api.raw  # noqa: F401
    import puresnmp_plugins.mpm.v3  # noqa: F401
    import puresnmp_plugins.security.usm  # noqa: F401


def main():
    argv = sys.argv[:]
    mode = argv[argv.index("--mode") + 1]
    stats_path = argv[argv.index("--stats") + 1]
    for flag in ("--mode", "--stats"):
        i = argv.index(flag)
        del argv[i:i + 2]
    import importlib

    import vsandbox

    vsandbox.install_guard()
    vsandbox.limit_memory(3 << 30)
    check = importlib.import_module("checks.c20_robustness" if mode == "c20" else "checks.c06_values")
    counters = dict(execs=0, nontrivial=0, violations=0, t0=time.time(), guard_hits=0)
    seen = set()

    def flush():
        counters["guard_hits"] = vsandbox.GUARD_HITS[0]
        counters["distinct_nontrivial"] = len(seen)
        with open(stats_path + ".tmp", "w") as fh:
            json.dump(counters, fh)
        os.replace(stats_path + ".tmp", stats_path)

    def one(data):
        counters["execs"] += 1
        case = check.fuzz_case(bytes(data))
        if case is not None:
            res = check.run_case(case)
            if res.nontrivial and len(seen) < 200000:
                seen.add(hash(bytes(data)))
            if res.violation is not None and res.known is None:
                counters["violations"] += 1
                flush()
                raise AssertionError(res.violation)
        if counters["execs"] % 500 == 0:
            flush()

    flush()
    atheris.Setup(argv, one)
    atheris.Fuzz()


if __name__ == "__main__":
    main()
