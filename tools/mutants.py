#!/venv/bin/python
"""Systematic sensitivity measurement: generate first-order mutants of exhuma/puresnmp (comparison / boolean / arithmetic
operator swaps, small-constant changes, dropped call statements, break<->continue), discard those the repository's own
174 tests already reject, and run the quick tier of the checks mapped to the mutated file against each survivor
(scratch copies, VERIF_REPO_SRC).  Results: /verif/mutation/results.json and a summary on stdout.

    tools/mutants.py [--per-file 25] [--seed 1] [--par 4] [--jobs 4] [--files raw.py,util.py] [--resume]
"""
import ast
import concurrent.futures as cf
import copy
import json
import os
import random
import shutil
import subprocess
import sys
import tempfile

VERIF = os.path.dirname(os.path.dirname(os.path.abspath(__file__)))
SRC = "/repo/src"
OUT = os.path.join(VERIF, "mutation", "results.json")

# file -> checks (fast and most relevant first; the run stops at the first check that reports a violation)
MAP = {
    "puresnmp/api/raw.py": ["C03", "C04", "C08", "C07", "C18", "C02", "C01", "C16", "C05", "C15", "C19", "C14", "C12"],
    "puresnmp/api/pythonic.py": ["C15", "C16", "C19", "C01", "C02"],
    "puresnmp/util.py": ["C03", "C10", "C07", "C02", "C01", "C16", "C11", "C04", "C15"],
    "puresnmp/pdu.py": ["C08", "C06", "C04", "C05", "C10", "C03", "C19", "C20"],
    "puresnmp/types.py": ["C17", "C06", "C05", "C15", "C04"],
    "puresnmp/adt.py": ["C05", "C06", "C10", "C09", "C11", "C20"],
    "puresnmp/transport.py": ["C13", "C19", "C20"],
    "puresnmp/credentials.py": ["C18", "C05", "C10", "C07"],
    "puresnmp/exc.py": ["C08", "C03", "C04", "C12", "C13"],
    "puresnmp/varbind.py": ["C15", "C04"],
    "puresnmp_plugins/security/usm.py": ["C10", "C09", "C11", "C12", "C05", "C20", "C08"],
    "puresnmp_plugins/security/v1.py": ["C07", "C04", "C05", "C19"],
    "puresnmp_plugins/security/v2c.py": ["C07", "C04", "C05", "C19"],
    "puresnmp_plugins/mpm/v3.py": ["C10", "C12", "C05", "C11", "C14", "C09"],
    "puresnmp_plugins/mpm/v1.py": ["C04", "C08", "C07", "C05"],
    "puresnmp_plugins/mpm/v2c.py": ["C04", "C08", "C07", "C19", "C14"],
    "puresnmp_plugins/auth/hashbase.py": ["C10", "C09"],
}
SKIP_FUNCS = {"pretty", "__repr__", "main", "_walk_subclasses", "default_trap_handler", "generate_engine_id_ip",
              "generate_engine_id_mac", "generate_engine_id_text", "generate_engine_id_octets", "sync", "iter_namespace"}
CMP = {ast.Lt: ast.LtE, ast.LtE: ast.Lt, ast.Gt: ast.GtE, ast.GtE: ast.Gt, ast.Eq: ast.NotEq, ast.NotEq: ast.Eq,
       ast.In: ast.NotIn, ast.NotIn: ast.In, ast.Is: ast.IsNot, ast.IsNot: ast.Is}
BIN = {ast.Add: ast.Sub, ast.Sub: ast.Add, ast.Mult: ast.FloorDiv, ast.FloorDiv: ast.Mult, ast.Mod: ast.FloorDiv,
       ast.BitAnd: ast.BitOr, ast.BitOr: ast.BitAnd, ast.LShift: ast.RShift}


class Collector(ast.NodeVisitor):
    """enumerate mutation points as (kind, path-id) where path-id is the index of the node in a deterministic walk"""

    def __init__(self):
        self.points = []
        self.func = []
        self.in_log = 0

    def visit_FunctionDef(self, node):
        self.func.append(node.name)
        self.generic_visit(node)
        self.func.pop()

    visit_AsyncFunctionDef = visit_FunctionDef

    def skip(self):
        return any(f in SKIP_FUNCS for f in self.func) or self.in_log

    def visit_Call(self, node):
        f = node.func
        is_log = isinstance(f, ast.Attribute) and isinstance(f.value, ast.Name) and f.value.id in ("LOG", "logging", "warn") \
            or isinstance(f, ast.Name) and f.id in ("warn",)
        if is_log:
            self.in_log += 1
        self.generic_visit(node)
        if is_log:
            self.in_log -= 1

    def generic_visit(self, node):
        if not self.skip():
            if isinstance(node, ast.Compare) and len(node.ops) == 1 and type(node.ops[0]) in CMP:
                self.points.append(("cmp", id(node)))
            elif isinstance(node, ast.BoolOp):
                self.points.append(("bool", id(node)))
            elif isinstance(node, ast.UnaryOp) and isinstance(node.op, ast.Not):
                self.points.append(("not", id(node)))
            elif isinstance(node, ast.BinOp) and type(node.op) in BIN and not isinstance(node.left, ast.Constant) or \
                    isinstance(node, ast.BinOp) and type(node.op) in BIN and isinstance(getattr(node.left, "value", None), int):
                self.points.append(("bin", id(node)))
            elif isinstance(node, ast.Constant) and isinstance(node.value, bool):
                self.points.append(("boolconst", id(node)))
            elif isinstance(node, ast.Constant) and isinstance(node.value, int) and not isinstance(node.value, bool) \
                    and -1 <= node.value <= 64:
                self.points.append(("int+1", id(node)))
                self.points.append(("int-1", id(node)))
            elif isinstance(node, ast.Expr) and isinstance(node.value, (ast.Call, ast.Await)) and self.func:
                call = node.value.value if isinstance(node.value, ast.Await) else node.value
                f = getattr(call, "func", None)
                is_log = (isinstance(f, ast.Attribute) and isinstance(f.value, ast.Name) and f.value.id in ("LOG", "logging")) \
                    or (isinstance(f, ast.Name) and f.id == "warn")
                if not is_log:
                    self.points.append(("dropcall", id(node)))
            elif isinstance(node, (ast.Break, ast.Continue)):
                self.points.append(("brk", id(node)))
            elif isinstance(node, ast.Raise) and self.func:
                self.points.append(("dropraise", id(node)))
        super().generic_visit(node)


def mutate(tree, kind, target_id):
    class T(ast.NodeTransformer):
        def visit(self, node):
            if id(node) == target_id:
                if kind == "cmp":
                    node.ops = [CMP[type(node.ops[0])]()]
                elif kind == "bool":
                    node.op = ast.Or() if isinstance(node.op, ast.And) else ast.And()
                elif kind == "not":
                    return node.operand
                elif kind == "bin":
                    node.op = BIN[type(node.op)]()
                elif kind == "boolconst":
                    node.value = not node.value
                elif kind == "int+1":
                    node.value = node.value + 1
                elif kind == "int-1":
                    node.value = node.value - 1
                elif kind in ("dropcall", "dropraise"):
                    return ast.Pass()
                elif kind == "brk":
                    return ast.Continue() if isinstance(node, ast.Break) else ast.Break()
                return node
            return self.generic_visit(node)
    return T().visit(tree)


def mutants_of(rel):
    src = open(os.path.join(SRC, rel)).read()
    tree = ast.parse(src)
    # drop docstrings so that ast.unparse output has no doctests that could fail spuriously
    c = Collector()
    c.visit(tree)
    out = []
    for kind, nid in c.points:
        t2 = copy.deepcopy(tree)
        # ids differ after deepcopy: locate by position in a parallel walk
        orig_nodes = list(ast.walk(tree))
        idx = next(i for i, n in enumerate(orig_nodes) if id(n) == nid)
        target = list(ast.walk(t2))[idx]
        node = orig_nodes[idx]
        m = mutate(t2, kind, id(target))
        ast.fix_missing_locations(m)
        try:
            code = ast.unparse(m)
            compile(code, rel, "exec")
        except Exception:  # noqa
            continue
        line = getattr(node, "lineno", 0)
        text = src.splitlines()[line - 1].strip() if line else ""
        out.append(dict(file=rel, kind=kind, line=line, text=text[:120], code=code))
    return out


def sh(cmd, **kw):
    return subprocess.run(cmd, shell=True, text=True, stdout=subprocess.PIPE, stderr=subprocess.STDOUT, **kw)


def evaluate(m, jobs):
    tmp = tempfile.mkdtemp(prefix="mutant-")
    try:
        shutil.copytree(SRC, tmp + "/src")
        shutil.copytree("/repo/tests", tmp + "/tests")
        shutil.copy("/repo/pyproject.toml", tmp)
        open(os.path.join(tmp, "src", m["file"]), "w").write(m["code"])
        r = sh("cd %s && PYTHONPATH=%s/src timeout 300 /venv/bin/python -m pytest -q -x -p no:cacheprovider --timeout=120 2>&1 | tail -1" % (tmp, tmp))
        last = r.stdout.strip().splitlines()[-1] if r.stdout.strip() else ""
        if " passed" not in last or "failed" in last.replace("xfailed", "") or "error" in last.lower():
            return dict(m, code=None, verdict="killed_by_tests", detail=last[:100])
        for cid in MAP[m["file"]]:
            env = dict(os.environ, VERIF_REPO_SRC=tmp + "/src", VERIF_NO_EVIDENCE="1", VERIF_SHRINK_S="5",
                       VERIF_REPLAY_DIR=tmp + "/replays")
            try:
                p = subprocess.run(["./check", cid, "--quick", "--jobs", str(jobs)], cwd=VERIF, env=env, text=True,
                                   stdout=subprocess.PIPE, stderr=subprocess.STDOUT, timeout=900)
            except subprocess.TimeoutExpired:
                return dict(m, code=None, verdict="caught", by=cid, detail="check did not finish in 900 s (hang)")
            if p.returncode == 1:
                first = [l.strip()[2:] for l in p.stdout.splitlines() if l.startswith("  # ")][:1]
                return dict(m, code=None, verdict="caught", by=cid, detail=(first[0][:200] if first else ""))
            if p.returncode == 2:
                err = [l for l in p.stdout.splitlines() if l.startswith("HARNESS")][:1]
                return dict(m, code=None, verdict="harness_error", by=cid, detail=(err[0][:200] if err else ""))
        return dict(m, code=None, verdict="survived")
    finally:
        shutil.rmtree(tmp, ignore_errors=True)


def main():
    a = sys.argv[1:]
    per_file = int(a[a.index("--per-file") + 1]) if "--per-file" in a else 25
    seed = int(a[a.index("--seed") + 1]) if "--seed" in a else 1
    par = int(a[a.index("--par") + 1]) if "--par" in a else 4
    jobs = int(a[a.index("--jobs") + 1]) if "--jobs" in a else 4
    files = a[a.index("--files") + 1].split(",") if "--files" in a else None
    rng = random.Random(seed)
    todo = []
    for rel in MAP:
        if files and not any(rel.endswith(f) for f in files):
            continue
        ms = mutants_of(rel)
        rng.shuffle(ms)
        todo += ms[:per_file]
        print("%-40s %4d mutation points, %d sampled" % (rel, len(ms), min(per_file, len(ms))), flush=True)
    os.makedirs(os.path.dirname(OUT), exist_ok=True)
    done = []
    if "--resume" in a and os.path.exists(OUT):
        done = json.load(open(OUT))["mutants"]
        seen = {(d["file"], d["kind"], d["line"], d["text"]) for d in done}
        todo = [m for m in todo if (m["file"], m["kind"], m["line"], m["text"]) not in seen]
    with cf.ThreadPoolExecutor(par) as ex:
        for res in ex.map(lambda m: evaluate(m, jobs), todo):
            done.append(res)
            print("%-16s %-34s:%-4d %-9s %s %s" % (res["verdict"], res["file"], res["line"], res["kind"], res.get("by", ""),
                                                  res["text"][:70]), flush=True)
            json.dump(dict(seed=seed, per_file=per_file, mutants=done), open(OUT, "w"), indent=1)
    tot = len(done)
    kt = sum(1 for d in done if d["verdict"] == "killed_by_tests")
    ca = sum(1 for d in done if d["verdict"] == "caught")
    su = sum(1 for d in done if d["verdict"] == "survived")
    he = sum(1 for d in done if d["verdict"] == "harness_error")
    print("\nmutants %d: rejected by the repository's tests %d; of the other %d: caught by a check %d, harness error %d, survived %d" % (
        tot, kt, tot - kt, ca, he, su))
    return 0


if __name__ == "__main__":
    sys.exit(main())
