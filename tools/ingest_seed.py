#!/venv/bin/python
"""Confirm a seeded change independently and keep it under /verif/seeded/<name>/.

    tools/ingest_seed.py <dir with patch.diff demo.py notes.md> <name> <property id> ["what it needs"]

In a scratch worktree of /repo (removed afterwards): demo passes on the
unchanged tree; the patch applies; the complete test-suite passes with it; the
demo fails with it.  Only then are the files copied and meta.json written.
"""
import json
import os
import shutil
import subprocess
import sys
import tempfile

VERIF = os.path.dirname(os.path.dirname(os.path.abspath(__file__)))


def sh(cmd, cwd=None, env=None, timeout=1200):
    r = subprocess.run(cmd, shell=True, cwd=cwd, env=env, text=True, stdout=subprocess.PIPE,
                       stderr=subprocess.STDOUT, timeout=timeout)
    return r.returncode, r.stdout


def main():
    src, name, prop = sys.argv[1], sys.argv[2], sys.argv[3]
    needs = sys.argv[4] if len(sys.argv) > 4 else ""
    wt = tempfile.mkdtemp(prefix="ingest-")
    os.rmdir(wt)
    rc, out = sh("git -C /repo worktree add -q --detach %s HEAD" % wt)
    if rc:
        print(out)
        return 2
    env = dict(os.environ, PYTHONPATH=wt + "/src")
    ran = []
    ok = True
    try:
        demo = os.path.abspath(os.path.join(src, "demo.py"))
        patch = os.path.abspath(os.path.join(src, "patch.diff"))
        rc0, out0 = sh("/venv/bin/python %s" % demo, cwd=wt, env=env, timeout=300)
        ran.append(dict(step="demo on unchanged tree", rc=rc0, tail=out0[-300:]))
        rc, out = sh("git apply %s" % patch, cwd=wt)
        ran.append(dict(step="git apply", rc=rc, tail=out[-300:]))
        if rc:
            ok = False
        rct, outt = sh("/venv/bin/python -m pytest -q -p no:cacheprovider --timeout=900 2>&1 | tail -3", cwd=wt, env=env)
        ran.append(dict(step="test-suite with change", rc=rct, tail=outt[-300:]))
        rc1, out1 = sh("/venv/bin/python %s" % demo, cwd=wt, env=env, timeout=300)
        ran.append(dict(step="demo with change", rc=rc1, tail=out1[-300:]))
        import re
        tests_ok = " passed" in outt and not re.search(r"\d+ (failed|error)", outt)
        ok = ok and rc0 == 0 and rc1 != 0 and tests_ok
    finally:
        sh("git -C /repo worktree remove --force %s" % wt)
        shutil.rmtree(wt, ignore_errors=True)
    for r in ran:
        print("%-28s rc=%s %s" % (r["step"], r["rc"], r["tail"].strip().splitlines()[-1][:150] if r["tail"].strip() else ""))
    if not ok:
        print("NOT CONFIRMED: %s" % name)
        return 1
    dst = os.path.join(VERIF, "seeded", name)
    os.makedirs(dst, exist_ok=True)
    for f in ("patch.diff", "demo.py", "notes.md"):
        if os.path.exists(os.path.join(src, f)) and os.path.abspath(src) != os.path.abspath(dst):
            shutil.copy(os.path.join(src, f), dst)
    meta = dict(name=name, property=prop, needs_to_manifest=needs,
                origin="independent sub-agent given only the property text and a scratch worktree",
                confirmed=ran, files=[l.split()[-1] for l in open(patch) if l.startswith("+++ ")])
    json.dump(meta, open(os.path.join(dst, "meta.json"), "w"), indent=1)
    print("CONFIRMED and stored: %s" % dst)
    return 0


if __name__ == "__main__":
    sys.exit(main())
