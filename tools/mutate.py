#!/venv/bin/python
"""Sensitivity helper: copy /repo/src to a scratch directory, replace one
exact string in one file, run the quick tier of the given checks against the
copy (VERIF_REPO_SRC) and report CAUGHT / missed.  Nothing under /repo or
/verif/evidence is kept.

    tools/mutate.py C17 puresnmp/types.py 'OLD' 'NEW' [--tests] [--thorough]
"""
import os
import shutil
import subprocess
import sys
import tempfile

VERIF = os.path.dirname(os.path.dirname(os.path.abspath(__file__)))


def main():
    flags = [a for a in sys.argv[1:] if a.startswith("--")]
    args = [a for a in sys.argv[1:] if not a.startswith("--")]
    ids, rel, old, new = args[0].split(","), args[1], args[2], args[3]
    tmp = tempfile.mkdtemp(prefix="mut-")
    try:
        shutil.copytree("/repo/src", tmp + "/src")
        shutil.copytree("/repo/tests", tmp + "/tests")
        shutil.copy("/repo/pyproject.toml", tmp)
        path = os.path.join(tmp, "src", rel)
        s = open(path).read()
        if s.count(old) != 1:
            print("pattern occurs %d times in %s" % (s.count(old), rel))
            return 2
        open(path, "w").write(s.replace(old, new))
        if "--tests" in flags:
            r = subprocess.run("cd %s && PYTHONPATH=%s/src /venv/bin/python -m pytest -q -x -p no:cacheprovider --timeout=900 2>&1 | tail -1" % (tmp, tmp),
                               shell=True, text=True, stdout=subprocess.PIPE)
            print("tests:", r.stdout.strip())
        tier = "--thorough" if "--thorough" in flags else "--quick"
        out = []
        for pid in ids:
            env = dict(os.environ, VERIF_REPO_SRC=tmp + "/src", VERIF_SHRINK_S="15", VERIF_NO_EVIDENCE="1")
            r = subprocess.run(["./check", pid, tier], cwd=VERIF, env=env, text=True,
                               stdout=subprocess.PIPE, stderr=subprocess.STDOUT)
            lines = [l for l in r.stdout.splitlines() if l.startswith(("VIOLATION", "  #", "HARNESS"))]
            for l in lines[:3]:
                print("   " + l[:260])
            out.append("%s=%s" % (pid, {0: "missed", 1: "CAUGHT"}.get(r.returncode, "ERR%d" % r.returncode)))
        print("MUTATION %s: %s" % (rel, " ".join(out)))
    finally:
        shutil.rmtree(tmp, ignore_errors=True)
        subprocess.run("rm -f replays/*.json", shell=True, cwd=VERIF)
    return 0


if __name__ == "__main__":
    sys.exit(main())
