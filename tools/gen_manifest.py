#!/venv/bin/python
"""Regenerate /verif/MANIFEST.json from the table below (and validate it
against the schema when jsonschema is importable)."""
import glob
import json
import os
import sys

VERIF = os.path.dirname(os.path.dirname(os.path.abspath(__file__)))

# property id -> (category, level text, level note, technique, DESIGN ref)
CHECKS = {}


def reg(pid, category, text, note, technique, ref):
    CHECKS[pid] = (category, text, note, technique, ref)


reg("C01", "exploration",
    "Generated-input search: thousands of agent databases built by construction (empty subtrees, "
    "end-of-view, adjacent/far-apart subtrees, instance at a root) x 1..4 disjoint roots x listing "
    "orders x v2c/v3 levels x raw/pythonic entry points are walked by the real client against an "
    "independent RFC 3416 agent; the oracle is set exactness against the database (nothing missing, "
    "nothing extra, nothing twice, values intact, ascending for one root, ends by itself) plus the "
    "metamorphic relation 'listing order does not matter'. Thorough adds an exhaustive small-scope "
    "enumeration. Sampling cannot prove absence; the small scope is complete.",
    "Trusts lib/vagent.py (reference agent) and lib/vber.py (independent BER codec, self-tested against "
    "RFC literals at start-up); OIDs restricted to what x690 documents as encodable.",
    "Hypothesis property-based testing against a reference agent + metamorphic order-independence + small-scope enumeration",
    "DESIGN.md section 3, C01")

reg("C02", "exploration",
    "Generated-input search, differential and absolute: bulkwalk (bulk sizes 1..50, weighted around subtree "
    "sizes) against the reference agent under generated conformant GETBULK truncation scripts "
    "(incl. agents with a fixed limit of 1..5 bindings per response for the whole walk) is compared with "
    "the GETNEXT multiwalk of the same roots on a fresh agent AND with the agent's database (so both walks being "
    "wrong the same way is still caught). Thorough adds the exhaustive small scope x bulk 1..4 x 3 truncation policies.",
    "Trusts lib/vagent.py's GETBULK (RFC 3416 4.2.3) incl. truncation; instances equal to a root are ignored in the differential half.",
    "Hypothesis differential testing (bulkwalk vs multiwalk) + absolute oracle from the agent database + small-scope enumeration",
    "DESIGN.md section 3, C02")

reg("C03", "fault_enumeration",
    "Fault enumeration over agent misbehaviour: the agent is a generated total function (requested OID, repetition "
    "index) -> OID | endOfMibView on a finite universe (identity, smaller, cycles, out-and-back-in, early "
    "endOfMibView, honest with drawn defects, fully random). Oracle: a hard request cap (non-termination is observed "
    "as a count, not a timeout), no OID requested twice, #requests <= #revealed + #roots + 1, outcome in {normal end, "
    "FaultySNMPImplementation}, and an ideal-walker simulation that fixes the required outcome and delivered prefix "
    "for repetition-independent functions. Thorough enumerates all 5^5 functions on two 4-OID universes x 7 operation/mode/bulk settings.",
    "The bound is deliberately loose; for repetition-dependent functions only termination/no-re-request/bound/outcome class are asserted.",
    "fault enumeration with generated function agents (Hypothesis) + exhaustive enumeration of all functions on small universes",
    "DESIGN.md section 3, C03")

reg("C04", "exploration",
    "Generated-input search: every request-style operation (get, multiget, getnext, multigetnext, set, multiset, "
    "bulkget) over generated databases, OID lists with duplicates / absent objects / end-of-view objects, SET values "
    "of every type and GETBULK splits, under v1, v2c and v3 at three levels; the oracle is the reference agent's own "
    "answer and its database state after SET; binding-count perturbations (+fresh, +duplicate, -last) must be refused with SnmpError.",
    "Trusts lib/vagent.py for v1/v2c/v3 GET/GETNEXT/SET/GETBULK semantics; any SnmpError subclass counts as refusal.",
    "Hypothesis property-based testing against a reference agent with response-count perturbation",
    "DESIGN.md section 3, C04")


reg("C17", "exploration",
    "Exhaustive enumeration of dense prefixes plus generated search: every TimeTicks value 0..2^22 (quick) / 0..2^26 "
    "(thorough), every value within 2^10 of each power of two and the top 2^16 values go through all three "
    "conversion laws (pythonize == v x 10 ms; timedelta -> ticks -> timedelta; ticks -> timedelta -> ticks) and the "
    "encode/decode round trip; Hypothesis covers Counter/Counter64 built from integers in -2^70..2^70 (wrap modulo "
    "2^32/2^64, clamp at 0), IpAddress over 32 bits (plus 2^20 / 2^26 strided samples), unsigned decoding of 4-/8-octet "
    "content with the top bit set and of canonical content, sub-tick timedeltas, and delivery through Client.get / "
    "PyWrapper.get. The enumerated part is complete; the rest is sampling.",
    "Oracles are arithmetic (no puresnmp/x690 code) and lib/vber.py; a timedelta that is not a whole tick may floor or round.",
    "exhaustive enumeration of value ranges + Hypothesis property-based testing with arithmetic / round-trip oracles",
    "DESIGN.md section 3, C17")


reg("C08", "fault_enumeration",
    "Fault enumeration, complete for its stated space: every tuple (error-status in {1..18, 19, 20, 127, 128, 255, 256, 2^31-1, "
    "-1, -128, -2^31}) x (binding count n 0..6) x (error-index 0..n+3) x (12 operations) x (failing request = first / a "
    "continuation request of a walk) is answered by a scripted agent for v2c on every run (thorough: also v1, the three "
    "SNMPv3 levels behind real USM signing/encryption, and the pythonic wrapper); Hypothesis adds arbitrary Integer32 "
    "statuses. Oracle: the RFC 3416 status table written out in the check selects the exception class, error_status "
    "and offending_oid (binding[index-1] or empty), and a marker value carried by the error response must never "
    "reach the caller.",
    "Trusts lib/vagent.py's framing of the scripted response; status 2 on a walk continuation may end the walk normally (documented).",
    "exhaustive fault enumeration over the error-status matrix + Hypothesis for arbitrary statuses",
    "DESIGN.md section 3, C08")


reg("C05", "exploration",
    "Generated-input search at the sender seam: every datagram the client emits for the 12 API operations (and the implied "
    "SNMPv3 discovery probe) is decoded by an independent strict BER/SNMP decoder and compared field by field with the "
    "intended request -- version, community or v3 header / USM parameters / context, PDU tag, Integer32 request-id (the wall "
    "clock is driven over 0..2^31-1), zero error fields or the given non-repeaters/max-repetitions, the caller's OIDs in order "
    "(2..128 arcs, sub-identifiers up to 2^32-1) bound to NULL or to SET values of every type whose independent decoding "
    "equals the caller's value; v3 requests must verify under the independent RFC 3414 implementation. A deterministic sweep "
    "drives every total datagram length through 127/128/255/256. One case in eight runs on a re-configured client.",
    "Trusts lib/vber.py (strict decoder) and lib/vagent.py (USM verification); non-minimal but valid BER is accepted; for walks "
    "only the first request's OID multiset is fixed by the caller.",
    "Hypothesis property-based testing with an independent decoder as oracle + deterministic length sweep",
    "DESIGN.md section 3, C05")


reg("C06", "exploration",
    "Generated-input search on the response path: binding lists (0..200) of all thirteen value types over their full "
    "ranges are encoded by the independent encoder with a generated definite length form (short / minimal long / long "
    "padded to 1..4 octets) for EVERY TLV header, framed for v1, v2c, SNMPv3 plaintext and SNMPv3 with the scoped PDU "
    "encrypted by the harness plug-ins, and delivered through get, multiget, getnext, multigetnext and bulkget of the "
    "real client with request-id and error-index over Integer32; the oracle is the type and value the independent "
    "decoder reads from the same bytes. Law cases check decode -> content fields and decode -> bytes -> same content "
    "tree for PDU, ScopedPDU, USMSecurityParameters and Message.",
    "Trusts lib/vber.py; canonical value contents only (device-style unsigned contents are C17); authenticated messages "
    "use minimal outer lengths (C10 covers authentic minimal messages).",
    "Hypothesis property-based testing with an independent encoder/decoder pair as oracle (round trip + re-encode law)",
    "DESIGN.md section 3, C06")


reg("C07", "exploration",
    "Generated-input search with an adversarial environment: a stepping wall clock (installed before puresnmp is imported) "
    "returns the next element of a generated schedule on every read, so request-id derivation is exercised across second "
    "boundaries inside one operation; the reference agent either echoes ids (then every one of 12 operations, under v1, v2c "
    "and SNMPv3 at three levels, must succeed with the database's answer) or perturbs the k-th response (id +1, -1, 0, random, "
    "the previous request's id, foreign or previously-used community, empty community, other version number, foreign "
    "discovery msgID), in which case InvalidResponseId / SnmpError must be raised and no value of that response returned. "
    "One case in eight has a history (an exchange under other credentials, then configure()).",
    "Trusts lib/vagent.py; nothing is assumed about how ids are derived; SNMPv3 data responses are only required to match on the PDU request-id.",
    "Hypothesis property-based testing with a controlled stepping clock and a response-id/community perturbing agent",
    "DESIGN.md section 3, C07")


reg("C15", "exploration",
    "Differential generated-input search: each of the eleven PyWrapper operations and its raw counterpart run against identical "
    "fresh reference agents over generated databases holding every value type (incl. conceptual tables with sparse and "
    "mixed-type columns, SET responses that confirm other values than were sent, missing objects); the wrapper's result must "
    "(a) consist only of str / int / bytes / timedelta / IPv4Address / None in lists, tuples, dicts and the documented "
    "BulkResult record -- dictionary keys included (deep type walk) -- and (b) equal the harness's own element-wise "
    "pythonisation of the raw result, including the exception class when the raw operation raises.",
    "The pythonisation table is written in the check from RFC 2578 meanings, not taken from puresnmp; table()/bulktable() only on conceptual tables.",
    "Hypothesis differential testing (wrapper vs raw client) with a deep type-walk oracle",
    "DESIGN.md section 3, C15")


reg("C16", "exploration",
    "Generated-input search, absolute and differential: conceptual tables built by construction (columns a sparse subset of "
    "1..12, 0..10 rows, index suffixes of 1..4 components with sub-identifiers up to 2^32-1, per-cell presence, neighbours "
    "directly before / after, a sibling whose arc textually extends the table's arc, or nothing after the table) are fetched "
    "through Client.table, Client.bulktable (bulk 1..30, generated conformant GETBULK truncation), PyWrapper.table and "
    "PyWrapper.bulktable against the reference agent over v2c, SNMPv3 and (GETNEXT variants) SNMPv1; every variant must return exactly the rows computed from the database "
    "(one per index, '0' = dotted index, one entry per present cell, nothing from outside the table), hence all variants agree.",
    "Trusts lib/vagent.py; rows are compared as a multiset (order unspecified); table() takes the entry OID and bulktable() the table OID as documented.",
    "Hypothesis property-based testing with an absolute database oracle across four fetch variants",
    "DESIGN.md section 3, C16")


reg("C18", "exploration",
    "Model-based stateful search: Hypothesis generates histories (3..25 steps quick, ..50 thorough) of configure(**kw), enter "
    "reconfigure(**kw), exit normally / by exception, request (get, set, walk) and unknown-setting attempts, with kw over "
    "timeout, retries, credentials (V1 / V2C communities, three SNMPv3 users incl. authPriv) and context, nesting depth <= 4; the "
    "history is interpreted against a model stack. After every step client.config must equal the model top; for every request, "
    "EVERY datagram reaching the sender seam (discovery probes included) must carry the timeout / retries in force and its "
    "independently decoded version, community or user, and context must equal the model top, and the request must succeed; "
    "unknown settings must raise and change nothing. The whole history shrinks as one value and is the replay file.",
    "Trusts lib/vber.py for decoding and lib/vagent.py for answering; client.config.* is the documented observable configuration.",
    "model-based stateful property testing (Hypothesis-generated operation histories against a model stack)",
    "DESIGN.md section 3, C18")


reg("C10", "exploration",
    "Differential interop search against an independent RFC 3412/3414 implementation: every SNMPv3 request of the real client is "
    "checked by the reference agent (msgFlags = level of the credentials + reportable for get / get-next / get-bulk / set; discovered "
    "engine id, boots, time, user name; 12-octet HMAC-MD5/SHA-1-96 verified over the bytes as sent with the RFC 3414 A.2 key; usmStats "
    "counters must not move), and every authentic minimal-BER response the agent produces must be accepted and decoded to the "
    "agent's answer. Deterministic sweeps cover EVERY password length 1..300 for both hashes and payload sizes driving message / "
    "scoped PDU / PDU lengths through 100..300 on both sides; Hypothesis generates multi-session cases in one process (same "
    "password with the other hash, same password towards other engines, same user name with another password, engine ids with "
    "runs of zero octets, context engine ids) to defeat wrongly keyed caches.",
    "Trusts lib/vagent.py (validated against the RFC 3414 A.3 vectors at start-up). The former known finding reencoded_len_127 was repaired (fix 8e2985a); a recurrence is reported as a violation.",
    "differential testing against an independent RFC 3414 implementation: Hypothesis multi-session cases + exhaustive password-length and message-length sweeps",
    "DESIGN.md section 3, C10")


reg("C11", "exploration",
    "Generated-input search with recording privacy plug-ins supplied through the public puresnmp_plugins.priv namespace (a keyed "
    "stream transform, and a block transform whose ciphertext is longer than the plaintext): for every request datagram of an "
    "authPriv user the encrypted PDU must be byte-identical to a ciphertext the plug-in returned for vber-decodable scoped-PDU "
    "bytes, msgPrivacyParameters must be the returned salt, the key handed to the plug-in must equal the independent RFC 3414 "
    "localisation of the PRIVACY password with the user's AUTH hash to the discovered engine, boots/time must be the discovered "
    "ones, marker strings (SET values, context name, requested OIDs) must not occur in the datagram, the reference agent (own "
    "implementation of the transforms) must decrypt every request, and every encrypted response must be decrypted with the key "
    "and the salt found in the message and yield the agent's answer. Multi-session cases rotate privacy passwords, switch the "
    "hash and the engine for the same user name inside one process.",
    "Trusts lib/vagent.py and the two harness plug-ins; no DES/AES plug-in ships with this repository.",
    "Hypothesis property-based testing with recording plug-ins + an independent decrypting agent (round trip and differential key derivation)",
    "DESIGN.md section 3, C11")


reg("C09", "fault_enumeration",
    "Fault enumeration by an on-path attacker: for authentic responses of the reference agent to MD5/SHA-1 x authNoPriv/authPriv users "
    "(get, getnext, walk continuation in quick; all seven operations, both walk positions and response sizes crossing 127/128 and "
    "255/256 in thorough) EVERY single-bit flip is delivered (exhaustive per base message), plus Hypothesis-generated structural "
    "forgeries over msgFlags 0..7 x digest {none, zeros, original, truncated, 13 octets, garbage, re-signed with another password / "
    "hash / cut short} x user name x engine id x payload {attacker bindings in clear, authentic plaintext in clear, original body, "
    "garbage ciphertext, Reports with usmStats / arbitrary / no bindings and error-status 0/2/5}. Oracle: the call raises, or returns "
    "exactly what the authentic response carried; an unauthenticated Report may only ever produce an exception.",
    "Runs under the x690 indefinite-length guard (known finding of C20, hits counted) with a CPU alarm per delivery; no cryptanalysis of HMAC-96; replay of old authentic responses is out of the listed scope.",
    "exhaustive single-bit fault enumeration + Hypothesis-generated structural forgeries (man in the middle)",
    "DESIGN.md section 3, C09")


reg("C12", "exploration",
    "Model-based stateful search on one virtual time line that drives the reference agent's engine clock AND every clock source the "
    "client could consult (time.time, time.monotonic, perf_counter, hence loop.time): Hypothesis generates histories (2..12 steps "
    "quick, ..30 thorough) of request (get, getnext, set, walk) / advance(dt in {1, 30, 149..152, 300, 3600, 86400 x k}) / reboot for all "
    "security levels, with conformant or non-conformant discovery replies (foreign msgID +1 / -1 / random, no bindings, Response "
    "instead of Report). Oracle: the first datagram of a new client is a well-formed discovery probe; later requests carry the "
    "discovered engine id as security engine id and (unless configured) context engine id; a foreign discovery msgID raises "
    "InvalidResponseId and nothing else is sent; the client stays usable afterwards; and EVERY request succeeds however far the "
    "agent's clock has advanced and however often the agent rebooted in between (the former known finding stale_boots_after_reboot "
    "was repaired by fix ad4b649; its trigger/signature attribution stays in the check but nothing is listed any more).",
    "Trusts lib/vagent.py's RFC 3414 timeliness check (150 s window on boots/time); only API outcomes and datagrams are judged.",
    "model-based stateful property testing (Hypothesis histories) on a virtual clock shared by agent and client",
    "DESIGN.md section 3, C12")


reg("C13", "fault_enumeration",
    "Fault enumeration in virtual time, complete for its stated space: ALL sequences of per-attempt network outcomes {reply, "
    "zero-length reply, nothing, reply after the timeout, duplicated reply, ICMP error (error_received), connection lost} for "
    "retries 1..3 (quick) / 1..4 (thorough) x timeouts {0.5, 1, 2.5, 6} are played against the real send_udp and "
    "SNMPClientProtocol -- directly and through Client.get with configured timeout / retries -- on an event loop whose clock is "
    "virtual and whose datagram endpoints are scripted and recorded. Oracle (model of attempts): at most `retries` endpoints, "
    "exactly one byte-identical sendto per endpoint, the first in-time reply returned unmodified at virtual time (k-1)*T+d, Timeout "
    "at exactly retries*T, OS errors propagate or count as unanswered, every transport closed or aborted once the call has "
    "returned or raised and the loop has drained, no exception inside loop callbacks. Generated cases add retries up to 6, event "
    "times at drawn fractions of the timeout on both sides of it, and calls cancelled from outside (the caller's own deadline) at "
    "drawn virtual times -- the sockets must be closed then as well. A real-socket tier on 127.0.0.1 (scripted "
    "responder, closed ports) checks datagram counts, results, lower time bounds and /proc/self/fd accounting.",
    "Virtual tier relies on a model of asyncio's datagram transport (no delivery after close/abort; connection_lost via call_soon); the loopback tier keeps the model honest. If create_datagram_endpoint is no longer used the virtual tier reports itself inconclusive.",
    "exhaustive enumeration of network-outcome sequences on a virtual-time event loop + real loopback sockets",
    "DESIGN.md section 3, C13")


reg("C14", "exploration",
    "Schedule exploration at the sender seam, the only point where the client yields to the event loop: every datagram parks on a "
    "future and a driver releases pending requests one at a time -- answering them through the reference agent or dropping them "
    "(the seam honours the retries it is handed, exactly as send_udp does) -- following a choice sequence. A DFS enumerates ALL "
    "schedules of every pair (and triples) from {get, getnext, walk, bulkwalk, set, multiget} on one client and of two clients on one "
    "loop (incl. two SNMPv3 users sharing pass-phrases but not the hash), for v2c and SNMPv3 (concurrent first use => concurrent "
    "discovery), with and without one lost datagram per operation, and with one operation given up by its caller (task cancelled) "
    "at every point of the schedule; "
    "Hypothesis draws longer choice sequences for 2..6 operations. A stepping wall clock makes request ids differ between "
    "operations. Oracle: each operation's outcome equals the outcome of the same operation alone on a fresh client and agent losing "
    "the same number of datagrams; every SNMPv3 request the agent sees verifies (no mixed users, keys or engine data).",
    "Complete for the sender-seam schedule model of cooperative asyncio (threads are out of scope: puresnmp documents itself as asyncio-only); trusts lib/vagent.py.",
    "exhaustive DFS over release/drop schedules at the sender seam + Hypothesis-drawn schedules, differential against the same operation run alone",
    "DESIGN.md section 3, C14")


reg("C19", "fault_enumeration",
    "Generated-input search over datagram sequences with injected faults: SNMPv2-Trap datagrams built by the independent encoder "
    "(sysUpTime, snmpTrapOID, 0..8 payload bindings of every type, IPv4 and IPv6 source addresses) are mixed in sequences of 1..12 "
    "with foreign-community datagrams, SNMPv1 / SNMPv3 datagrams (also as the very first datagram), truncations, single-bit flips and "
    "random bytes, and injected into the real SNMPTrapReceiverProtocol created by register_trap_callback on a capturing event loop; "
    "a small tier sends them through real UDP sockets on 127.0.0.1 and ::1. Oracle: the async callback runs exactly once per "
    "well-formed matching notification, in arrival order, with a Trap (and TrapInfo.origin / uptime / oid / values) equal to what "
    "the independent decoder reads and Trap.source equal to the sender address; foreign-community datagrams are never delivered; "
    "a valid datagram after any number of bad ones is still delivered.",
    "Mutated datagrams are classified by the independent strict decoder (deliver / drop / either); exceptions out of datagram_received are treated as asyncio does (logged, listener alive); runs under the x690 guard and a CPU alarm.",
    "Hypothesis property-based testing over datagram sequences with fault injection (capturing event loop + real loopback sockets)",
    "DESIGN.md section 3, C19")


reg("C20", "fault_enumeration",
    "Fault enumeration and fuzzing of the three datagram entry paths (response, discovery reply, trap listener): for base datagrams "
    "produced by the reference agent (v2c / SNMPv3 noAuth, auth, authPriv in quick; 18 bases incl. v1, error responses, Reports, a "
    "1.2 KiB response and a large trap in thorough) EVERY single-bit flip, EVERY truncation and EVERY value 0..255 at EVERY TLV header "
    "octet is delivered through the real client or listener -- for authenticated / encrypted messages also applied to the plaintext "
    "PDU before the agent encrypts and signs it, so that parsing continues after authentication -- plus Hypothesis-generated random "
    "bytes and TLV trees with lying lengths (indefinite, 2^31, 8-octet, reserved 0xFF, off by n) and nesting depth up to 5000; the "
    "thorough tier adds coverage-guided atheris campaigns. Oracle per delivery: CPU time <= 2 s + 100 us x len, resident-set growth "
    "<= 48 MiB + 1 KiB x len (RLIMIT_AS 3 GiB as backstop), and the SAME client / listener then completes a valid exchange correctly.",
    "The x690 indefinite-length defect is excluded at its root cause by a counted guard so that the search continues behind it; it is re-demonstrated without the guard from known/C20-x690-indefinite.json in a child process on every run. Budgets are stated constants, not a proof of linearity.",
    "exhaustive mutation enumeration (bit flips, truncations, header-octet substitutions) + Hypothesis TLV-tree generation + coverage-guided fuzzing (atheris) with resource and follow-up oracles",
    "DESIGN.md section 3, C20")

# what rounds 4 and 5 of the seeding (DESIGN.md 8.6) added to the searches, appended to the texts above
ADDED = {
    "C01": " Agents may be volatile (counters, gauges and time ticks move with every read), so one instance read twice in a response carries two values.",
    "C02": " Repetition counts reach 2^31-1 (the agent answers with at most 300 rows); agents may be volatile.",
    "C03": " Returned OIDs are bound to INTEGER, either exception marker, OCTET STRING or NULL; one case in six runs through the pythonic wrapper.",
    "C04": " Requests carry up to 300 OIDs and max-repetitions up to 1000.",
    "C05": " Requests carry up to 2000 OIDs; walk roots use sub-identifiers of every encoded width.",
    "C06": " Strings reach 100000 octets and OIDs 128 sub-identifiers.",
    "C07": " Near-miss communities (one extra / changed octet, also >= 0x80), agent restarts (re-discovery and retry) under the stepping clock, clocks starting at 0.",
    "C09": " Walks also run in lenient mode; forgeries are also signed with the key of a second legitimate user the process talked as before and carry the attacker's bindings under every PDU class; an answer replaced by an unauthenticated Report must end in an exception.",
    "C11": " Salts of any shape (16-octet counter with leading zeros, zero octets, empty, 40 octets) on both sides; a plug-in that is installed while the process is running.",
    "C12": " usmStats counters start anywhere in Counter32, agent engine ids have 5..32 octets, requests may run inside a reconfigure block, and timeliness is judged on the wire: an untimely message is a violation unless the engine restarted since the client last learned its boots / time.",
    "C13": " Both tiers also vary the environment of the call: IPv4 / IPv6 endpoint, DEBUG logging on / off, replies of 1..65507 octets.",
    "C14": " The driver can also restart the engine and let the agent answer early but deliver late; a second client may talk to a second engine behind the same address; a write-then-read-back operation races with a read of the same object.",
    "C15": " Cells may hold falsy values (0, empty string, 0.0.0.0, zero ticks, the zero-length OBJECT IDENTIFIER).",
    "C17": " IpAddress additionally covers all 24^4 addresses whose octets are characters of [0-9a-fA-F.:].",
    "C18": " Unknown settings also come together with valid ones (after the refusal the next request must speak as before), and a configuration level that already talked to the engine must not discover it again after an inner block.",
    "C19": " Listener communities with blanks, upper case, 255 octets; a datagram whose outermost TLV is not a SEQUENCE or announces more octets than arrived must not be delivered.",
    "C20": " Structured families on top: an overlap chain (children ending beyond their parent) in place of every message field and as binding value, incl. walks and the pythonic wrapper; proper nesting to depth 1500 with DEBUG logging on / off; Response / Report integer fields of any width; peers that answer every request of one call the same way (the call must end within 40 datagrams); histories of 150..1800 refused datagrams on one client / trap listener (what stays allocated must not grow with their number). A second x690 defect (children that end beyond their parent make every conversion exponential) is excluded by its trigger predicate, counted, and re-demonstrated from known/C20-x690-overlap.json.",
}
ALL_CASES = " Every case of every check runs either with logging disabled or as for a user with DEBUG logging on (a fixed function of the case, one in four; DESIGN.md 8.10)."


def main():
    present = sorted(os.path.basename(p)[:3].upper()
                     for p in glob.glob(os.path.join(VERIF, "checks", "c[0-9][0-9]_*.py")))
    props = [json.loads(l) for l in open(os.path.join(VERIF, "properties.jsonl"))]
    checks = []
    for p in props:
        pid = p["id"]
        if pid not in CHECKS or pid not in present:
            continue
        cat, text, note, tech, ref = CHECKS[pid]
        text = text + ADDED.get(pid, "") + ALL_CASES
        checks.append(dict(
            property_id=pid,
            quick_cmd="./check %s --quick" % pid,
            thorough_cmd="./check %s --thorough" % pid,
            evidence_file="/verif/evidence/%s.json" % pid,
            replay_cmd_template="./check %s --replay {path}" % pid,
            engine="vrunner",
            level_claimed=dict(category=cat, text=text, design_ref=ref),
            level_note=note,
            technique=tech,
        ))
    na_path = os.path.join(VERIF, "tools", "not_applicable.json")
    na = json.load(open(na_path)) if os.path.exists(na_path) else {}
    not_applicable = []
    for p in props:
        if p["id"] not in [c["property_id"] for c in checks]:
            not_applicable.append(dict(
                property_id=p["id"],
                reason=na.get(p["id"], "check not built yet (work in progress); the technique applies, see DESIGN.md section 3")))
    fixes = []
    try:
        import subprocess

        log = subprocess.check_output(["git", "-C", "/repo", "log", "--format=%h %s"], text=True)
        fixes = [l.split()[0] for l in log.splitlines() if " fix:" in " " + l.split(" ", 1)[1][:5] or l.split(" ", 1)[1].startswith("fix:")]
    except Exception:
        pass
    manifest = dict(
        version=1,
        setup_cmd="/venv/bin/python /verif/tools/setup.py",
        hooks=dict(
            guard="PURESNMP_VERIF",
            enable="no instrumentation is compiled in: every observation point is a public seam "
                   "(Client(sender=...), the puresnmp_plugins namespace, loop.create_datagram_endpoint, time.time); "
                   "checks import puresnmp from /repo/src of the current working tree",
            baseline_off_cmd="cd /repo && /venv/bin/python -m pytest -ra -q -p no:cacheprovider --timeout=900 --continue-on-collection-errors",
            source_commits=[],
            add_only=True,
        ),
        engines=[dict(
            name="vrunner",
            path="/verif/lib/vrunner.py",
            serves_properties=[c["property_id"] for c in checks],
            kind_free_text="Hypothesis-driven property-based testing / enumeration / fuzzing harness: "
                           "forks 16 workers, each runs generated cases of one check against the real "
                           "puresnmp client with an independent reference agent (lib/vagent.py) and BER "
                           "codec (lib/vber.py) as oracle; shrinks failures to JSON replay files",
        )],
        checks=checks,
        not_applicable=not_applicable,
        notes="fix: commits in /repo (genuine defects repaired, see KNOWN_FINDINGS.txt 'fixed:' lines): %s. "
              "Known findings that are recorded rather than repaired are listed as 'known:' lines in "
              "/verif/KNOWN_FINDINGS.txt with canned replays under /verif/known/." % ", ".join(reversed(fixes)),
    )
    out = os.path.join(VERIF, "MANIFEST.json")
    with open(out, "w") as fh:
        json.dump(manifest, fh, indent=1)
        fh.write("\n")
    try:
        sys.path.insert(0, os.path.join(VERIF, ".deps"))
        sys.path.insert(0, "/opt/veriftools/pyvenv/lib/python3.11/site-packages")
        import jsonschema

        jsonschema.validate(manifest, json.load(open("/root/.vp/MANIFEST.schema.json")))
        print("MANIFEST.json valid: %d checks, %d not_applicable" % (len(checks), len(not_applicable)))
    except ImportError:
        print("MANIFEST.json written (jsonschema not importable here): %d checks" % len(checks))


if __name__ == "__main__":
    main()
