#!/venv/bin/python
"""Apply a seeded change to /repo, run the quick checks of the given
properties against it, and undo the change straight afterwards.

    tools/seedtest.py seeded/C01-1/patch.diff C01 C02 [--thorough] [--tests]
"""
import os
import subprocess
import sys
import time

VERIF = os.path.dirname(os.path.dirname(os.path.abspath(__file__)))


def sh(cmd, **kw):
    return subprocess.run(cmd, shell=True, text=True, stdout=subprocess.PIPE,
                          stderr=subprocess.STDOUT, **kw)


def main():
    args = [a for a in sys.argv[1:] if not a.startswith("--")]
    tier = "--thorough" if "--thorough" in sys.argv else "--quick"
    patch, ids = os.path.abspath(args[0]), args[1:]
    if sh("git -C /repo status --porcelain").stdout.strip():
        print("refusing: /repo has uncommitted changes")
        return 2
    r = sh("git -C /repo apply --3way %s || git -C /repo apply %s" % (patch, patch))
    if sh("git -C /repo status --porcelain").stdout.strip() == "":
        print("patch did not apply:\n" + r.stdout)
        return 2
    rc_all = {}
    try:
        if "--tests" in sys.argv:
            t = sh("cd /repo && /venv/bin/python -m pytest -q -p no:cacheprovider --timeout=900 2>&1 | tail -1")
            print("test-suite with change:", t.stdout.strip())
        for pid in ids:
            t0 = time.time()
            env = dict(os.environ, VERIF_SHRINK_S=os.environ.get("VERIF_SHRINK_S", "20"))
            r = sh("cd %s && ./check %s %s" % (VERIF, pid, tier), env=env)
            lines = [l for l in r.stdout.splitlines() if l.startswith(("VIOLATION", "  #", "HARNESS", pid))]
            rc_all[pid] = r.returncode
            print("== %s rc=%d (%.0fs)" % (pid, r.returncode, time.time() - t0))
            for l in lines[:6] + lines[-1:]:
                print("   " + l[:300])
    finally:
        sh("git -C /repo reset -q --hard HEAD")
        sh("cd %s && git checkout -q -- evidence 2>/dev/null; rm -f replays/*.json" % VERIF)
    print("SUMMARY", " ".join("%s=%s" % (k, "CAUGHT" if v == 1 else "missed" if v == 0 else "ERR") for k, v in rc_all.items()))
    return 0


if __name__ == "__main__":
    sys.exit(main())
