#!/venv/bin/python
"""Fill the generated blocks of DESIGN.md: the seeded-change catch matrix (from seeded/*/detection.json and meta.json)
and the measured cost table (from evidence/*.json and, if present, notes/thorough-timings.json)."""
import glob
import json
import os
import re

VERIF = os.path.dirname(os.path.dirname(os.path.abspath(__file__)))


def block(s, name, body):
    a, b = "<!-- %s-BEGIN -->" % name, "<!-- %s-END -->" % name
    i, j = s.index(a) + len(a), s.index(b)
    return s[:i] + "\n" + body + "\n" + s[j:]


def matrix():
    rows = ["| seed | property | needs, in order to manifest | own check (quick) | also caught by |", "|---|---|---|---|---|"]
    for d in sorted(glob.glob(os.path.join(VERIF, "seeded", "*/"))):
        name = os.path.basename(d.rstrip("/"))
        meta = json.load(open(d + "meta.json"))
        det = {}
        if os.path.exists(d + "detection.json"):
            det = json.load(open(d + "detection.json")).get("results", {})
        prop = meta["property"]
        own = det.get(prop, {}).get("verdict", "not run")
        also = sorted(c for c, v in det.items() if c != prop and v.get("verdict") == "CAUGHT")
        needs = re.sub(r"\s+", " ", meta.get("needs_to_manifest", ""))[:230]
        rows.append("| %s | %s | %s | %s | %s |" % (name, prop, needs, own, ", ".join(also) or "–"))
    return "\n".join(rows)


def cost():
    thor = {}
    p = os.path.join(VERIF, "notes", "thorough-timings.json")
    if os.path.exists(p):
        thor = json.load(open(p))
    rows = ["| property | level | quick: cases / distinct non-trivial / wall | thorough: cases / distinct non-trivial / wall |", "|---|---|---|---|"]
    for f in sorted(glob.glob(os.path.join(VERIF, "evidence", "C*.json"))):
        e = json.load(open(f))
        pid = e["property_id"]
        q = thor.get(pid, {}).get("quick") or (e if e["tier"] == "quick" else None)
        t = thor.get(pid, {}).get("thorough") or (e if e["tier"] == "thorough" else None)

        def fmt(x):
            if not x:
                return "–"
            c = x["coverage"] if "coverage" in x else x
            return "%s / %s / %.0f s" % (format(c["evaluations"], ","), format(c["distinct_nontrivial"], ","), x["wall_s"])
        rows.append("| %s | %s | %s | %s |" % (pid, e["level"], fmt(q), fmt(t)))
    return "\n".join(rows)


def main():
    p = os.path.join(VERIF, "DESIGN.md")
    s = open(p).read()
    s = block(s, "MATRIX", matrix())
    s = block(s, "COST", cost())
    open(p, "w").write(s)
    print("DESIGN.md tables regenerated")


if __name__ == "__main__":
    main()
