#!/venv/bin/python
"""MANIFEST.setup_cmd: build the framework from files on disk only (offline).

Installs, next to the repository's packages and without touching /venv, the
third-party packages the checks use that may be missing from /venv
(hypothesis; atheris for the coverage-guided fuzz units) into /verif/.deps from
the offline wheelhouse, then runs the harness self-tests.
"""
import importlib
import os
import subprocess
import sys

VERIF = os.path.dirname(os.path.dirname(os.path.abspath(__file__)))
DEPS = os.path.join(VERIF, ".deps")
WHEELS = "/opt/veriftools/wheels"


def have(mod):
    sys.path.insert(0, DEPS)
    try:
        importlib.import_module(mod)
        return True
    except Exception:
        return False
    finally:
        sys.path.remove(DEPS)


def main():
    os.makedirs(DEPS, exist_ok=True)
    for mod, pkg in (("hypothesis", "hypothesis"), ("atheris", "atheris")):
        if have(mod):
            continue
        r = subprocess.run(
            [sys.executable, "-m", "pip", "install", "--quiet", "--no-index",
             "--find-links", WHEELS, "--target", DEPS, pkg],
            stdout=subprocess.PIPE, stderr=subprocess.STDOUT, text=True)
        importlib.invalidate_caches()
        print("install %s -> %s" % (pkg, "ok" if have(mod) else "FAILED\n" + r.stdout[-2000:]))
    sys.path.insert(0, os.path.join(VERIF, "lib"))
    import vagent
    import vber

    vber.selftest()
    vagent.selftest()
    print("harness self-tests ok; hypothesis=%s atheris=%s" % (have("hypothesis"), have("atheris")))
    return 0 if have("hypothesis") else 1


if __name__ == "__main__":
    sys.exit(main())
