#!/venv/bin/python
"""Run every registered check (quick or thorough) on the unchanged tree, one after the other, print one line per check and
keep a summary of the evidence in notes/<tier>-summary.json (used by tools/gen_design_tables.py).

    tools/run_all.py --quick | --thorough [--seeds 1,2,3] [--only C01,C02]
"""
import json
import os
import subprocess
import sys
import time

VERIF = os.path.dirname(os.path.dirname(os.path.abspath(__file__)))


def main():
    tier = "thorough" if "--thorough" in sys.argv else "quick"
    seeds = [1]
    if "--seeds" in sys.argv:
        seeds = [int(x) for x in sys.argv[sys.argv.index("--seeds") + 1].split(",")]
    ids = [c["property_id"] for c in json.load(open(os.path.join(VERIF, "MANIFEST.json")))["checks"]]
    if "--only" in sys.argv:
        only = sys.argv[sys.argv.index("--only") + 1].split(",")
        ids = [i for i in ids if i in only]
    summary = {}
    bad = 0
    for seed in seeds:
        for pid in ids:
            t0 = time.time()
            p = subprocess.run(["./check", pid, "--" + tier], cwd=VERIF, env=dict(os.environ, VERIF_SEED=str(seed)), text=True,
                               stdout=subprocess.PIPE, stderr=subprocess.STDOUT)
            last = [l for l in p.stdout.splitlines() if l.startswith(pid + " ")][-1:] or [p.stdout[-200:]]
            flag = "" if p.returncode == 0 else "   <<<<<< rc=%d" % p.returncode
            print("%s  (%.0f s)%s" % (last[0], time.time() - t0, flag), flush=True)
            if p.returncode != 0:
                bad += 1
                for l in p.stdout.splitlines():
                    if l.startswith(("VIOLATION", "  #", "HARNESS")):
                        print("      " + l[:300])
            if seed == seeds[0]:
                try:
                    e = json.load(open(os.path.join(VERIF, "evidence", pid + ".json")))
                    summary[pid] = {tier: dict(evaluations=e["coverage"]["evaluations"], distinct_nontrivial=e["coverage"]["distinct_nontrivial"],
                                               wall_s=e["wall_s"], exhaustive=e["coverage"].get("exhaustive", False), seed=e["seed"])}
                except Exception:  # noqa
                    pass
    path = os.path.join(VERIF, "notes", "thorough-timings.json")
    old = json.load(open(path)) if os.path.exists(path) else {}
    for pid, v in summary.items():
        old.setdefault(pid, {}).update(v)
    json.dump(old, open(path, "w"), indent=1, sort_keys=True)
    print("checks with a non-zero exit: %d" % bad)
    return 1 if bad else 0


if __name__ == "__main__":
    sys.exit(main())
