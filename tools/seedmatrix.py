#!/venv/bin/python
"""Run the quick tier of a set of checks against every seeded change and record
which check catches which change.

For each /verif/seeded/<name>/ a scratch git worktree of /repo (outside /repo
and /verif, removed afterwards) gets the patch applied; the checks import
puresnmp from there (VERIF_REPO_SRC) so several seeds can be evaluated in
parallel without touching /repo.  Results go to seeded/<name>/detection.json
and a markdown table is printed.

    tools/seedmatrix.py [--all | --checks C10,C11] [--only NAME,...] [--par 3] [--jobs 5]
"""
import concurrent.futures as cf
import glob
import json
import os
import shutil
import subprocess
import sys
import tempfile

VERIF = os.path.dirname(os.path.dirname(os.path.abspath(__file__)))
GROUPS = [
    ["C01", "C02", "C03", "C16"],
    ["C04", "C05", "C06", "C08", "C15"],
    ["C07", "C18", "C14"],
    ["C09", "C10", "C11", "C12"],
    ["C13", "C14", "C18"],
    ["C19", "C20"],
    ["C17", "C06"],
]
ALL = ["C%02d" % i for i in range(1, 21)]


def sh(cmd, **kw):
    return subprocess.run(cmd, shell=True, text=True, stdout=subprocess.PIPE, stderr=subprocess.STDOUT, **kw)


CHECKS = None     # --checks C10,C11: exactly these checks


def checks_for(prop, everything):
    if CHECKS:
        return CHECKS
    if everything:
        return ALL
    out = []
    for g in GROUPS:
        if prop in g:
            out += [c for c in g if c not in out]
    return out or [prop]


def evaluate(name, everything, jobs):
    d = os.path.join(VERIF, "seeded", name)
    meta = json.load(open(os.path.join(d, "meta.json")))
    prop = meta["property"]
    wt = tempfile.mkdtemp(prefix="sm-%s-" % name)
    os.rmdir(wt)
    r = sh("git -C /repo worktree add -q --detach %s HEAD && git -C %s apply %s" % (wt, wt, os.path.join(d, "patch.diff")))
    res = {}
    try:
        if r.returncode:
            # a patch that no longer applies must not leave yesterday's verdicts standing
            res = {cid: dict(rc=2, verdict="error", first="PATCH DOES NOT APPLY: " + r.stdout[-200:].strip())
                   for cid in checks_for(prop, everything)}
        for cid in ([] if r.returncode else checks_for(prop, everything)):
            env = dict(os.environ, VERIF_REPO_SRC=wt + "/src", VERIF_NO_EVIDENCE="1", VERIF_SHRINK_S="10",
                       VERIF_REPLAY_DIR=os.path.join(wt, "replays"))
            p = subprocess.run(["./check", cid, "--quick", "--jobs", str(jobs)], cwd=SNAP or VERIF, env=env, text=True,
                               stdout=subprocess.PIPE, stderr=subprocess.STDOUT)
            first = [l.strip()[2:] for l in p.stdout.splitlines() if l.startswith("  # ")][:1]
            res[cid] = dict(rc=p.returncode, verdict={0: "missed", 1: "CAUGHT"}.get(p.returncode, "error"),
                            first=(first[0][:240] if first else ""))
    finally:
        sh("git -C /repo worktree remove --force %s" % wt)
        shutil.rmtree(wt, ignore_errors=True)
    path = os.path.join(d, os.environ.get("VERIF_DETECTION_FILE", "detection.json"))   # (e.g. detection-seed2.json with VERIF_SEED=2)
    merged = {}
    if os.path.exists(path):
        try:
            merged = json.load(open(path)).get("results", {})
        except Exception:  # noqa
            merged = {}
    merged.update({k: v for k, v in res.items() if not k.startswith("_")})     # newer runs replace older ones per check
    json.dump(dict(seed=name, property=prop, tier="quick", results=merged), open(path, "w"), indent=1)
    return name, prop, res


SNAP = None


def snapshot():
    """the checks run from a copy of /verif taken now (outside /repo and /verif, removed at the end), so that editing the
    checks while a matrix is running does not disturb it"""
    global SNAP
    SNAP = tempfile.mkdtemp(prefix="sm-verif-")
    sh("rsync -a --exclude .git --exclude seeded --exclude evidence --exclude replays --exclude .deps --exclude mutation "
       "--exclude __pycache__ %s/ %s/" % (VERIF, SNAP))
    if os.path.isdir(os.path.join(VERIF, ".deps")):
        os.symlink(os.path.join(VERIF, ".deps"), os.path.join(SNAP, ".deps"))
    os.makedirs(os.path.join(SNAP, "evidence"), exist_ok=True)


def main():
    args = sys.argv[1:]
    snapshot()
    everything = "--all" in args
    par = int(args[args.index("--par") + 1]) if "--par" in args else 3
    jobs = int(args[args.index("--jobs") + 1]) if "--jobs" in args else 5
    only = args[args.index("--only") + 1].split(",") if "--only" in args else None
    global CHECKS
    if "--checks" in args:
        CHECKS = args[args.index("--checks") + 1].split(",")
    names = sorted(os.path.basename(p.rstrip("/")) for p in glob.glob(os.path.join(VERIF, "seeded", "*/")))
    if only:
        names = [n for n in names if n in only]
    rows = []
    with cf.ThreadPoolExecutor(par) as ex:
        for name, prop, res in ex.map(lambda n: evaluate(n, everything, jobs), names):
            own = res.get(prop, {}).get("verdict", "?")
            others = [c for c, v in res.items() if c != prop and isinstance(v, dict) and v.get("verdict") == "CAUGHT"]
            errs = [c for c, v in res.items() if isinstance(v, dict) and v.get("verdict") == "error"]
            print("%-6s own=%s also=%s%s" % (name, own, ",".join(others) or "-", (" ERR=" + ",".join(errs)) if errs else ""), flush=True)
            rows.append((name, prop, own, others))
    shutil.rmtree(SNAP, ignore_errors=True)
    print("\n| seed | property | own check | also caught by |\n|---|---|---|---|")
    for name, prop, own, others in rows:
        print("| %s | %s | %s | %s |" % (name, prop, own, ", ".join(others) or "–"))
    return 0


if __name__ == "__main__":
    sys.exit(main())
