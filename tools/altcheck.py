#!/venv/bin/python
"""False-alarm resistance: run the quick tier of every check against ALTERNATIVE, equally conformant implementations of
parts of puresnmp (scratch copies of /repo/src, removed afterwards).  Every check must stay silent (exit 0): a check that
raises an alarm here demands more than its property states.

    tools/altcheck.py [--only ids,socket,multiwalk] [--checks C01,C05]
    tools/altcheck.py --diffs [NAME-PREFIX,...] [--checks ...]     the larger rewrites kept as patches under alternatives/
                                                                   (written by independent sub-agents, DESIGN.md 8.8)
"""
import glob
import json
import os
import shutil
import subprocess
import sys
import tempfile

VERIF = os.path.dirname(os.path.dirname(os.path.abspath(__file__)))


def rep(path, old, new, count=1):
    s = open(path).read()
    assert s.count(old) >= 1, (path, old[:60])
    open(path, "w").write(s.replace(old, new, count))


def alt_ids(src):
    """request ids from a randomly started counter instead of int(time()); engine discovery before EVERY request"""
    rep(src + "/puresnmp/util.py", "def get_request_id() -> int:  # pragma: no cover", '''import itertools as _it, random as _rnd
_IDS = _it.count(_rnd.SystemRandom().randrange(1, 2 ** 30))


def get_request_id() -> int:  # pragma: no cover
    return next(_IDS) % (2 ** 31 - 1)


def _old_get_request_id() -> int:  # pragma: no cover''')
    rep(src + "/puresnmp_plugins/mpm/v3.py", "        if not self.disco:\n", "        if True:  # alternative: discover before every request\n")


def alt_socket(src):
    """send_udp keeps ONE socket for all attempts and re-sends on it"""
    p = src + "/puresnmp/transport.py"
    s = open(p).read()
    a = s.index("    if loop is None:\n        loop = asyncio.get_event_loop()\n\n    while retries > 0:")
    b = s.index("    return response\n", a) + len("    return response\n")
    new = '''    if loop is None:
        loop = asyncio.get_event_loop()

    transport, protocol = await loop.create_datagram_endpoint(
        lambda: SNMPClientProtocol(packet),
        remote_addr=(str(endpoint.ip), endpoint.port),
    )
    try:
        attempts = retries
        while True:
            try:
                return await asyncio.wait_for(asyncio.shield(protocol.future), timeout)
            except (asyncio.TimeoutError, socket.timeout) as exc:
                attempts -= 1
                if attempts <= 0:
                    raise Timeout(f"{timeout} second timeout exceeded on UDP transport.") from exc
                transport.sendto(packet)
    finally:
        transport.close()
'''
    open(p, "w").write(s[:a] + new + s[b:])


def alt_multiwalk(src):
    """multiwalk walks one root after the other (sequential single-root walks through the same fetcher)"""
    p = src + "/puresnmp/api/raw.py"
    s = open(p).read()
    a = s.index("        if fetcher is None:\n            fetcher = self.multigetnext\n")
    b = s.index("    async def multigetnext(self, oids: List[ObjectIdentifier]) -> List[VarBind]:")
    new = '''        if fetcher is None:
            fetcher = self.multigetnext
        yielded: Set[ObjectIdentifier] = set()
        for root in sorted(oids):
            current = root
            first = True
            done = False
            while not done:
                try:
                    varbinds = await fetcher([current])
                except NoSuchOID:
                    if first:
                        raise
                    break
                except FaultySNMPImplementation:
                    if errors == ERRORS_WARN:
                        break
                    raise
                first = False
                if not varbinds:
                    break
                for varbind in varbinds:
                    if varbind.oid not in root:
                        done = True
                        break
                    if varbind.oid in yielded:
                        continue
                    yielded.add(varbind.oid)
                    yield varbind
                    current = varbind.oid

'''
    open(p, "w").write(s[:a] + new + s[b:])


def alt_rooteq(src):
    """walks never report an instance whose OID equals a requested root (the property accepts both behaviours)"""
    rep(src + "/puresnmp/api/raw.py", "            if not any(containment) or varbind.oid in yielded:",
        "            if not any(containment) or varbind.oid in yielded or varbind.oid in requested_oids:")


def alt_lock(src):
    """a client serialises its exchanges with a lock (each operation still gets what it would get alone)"""
    rep(src + "/puresnmp/api/raw.py", """    async def _exchange(self, pdu: PDU, request_id: int) -> PDU:
        packet, _ = await self.mpm.encode(""", """    async def _exchange(self, pdu: PDU, request_id: int) -> PDU:
        import asyncio as _aio

        locks = self.__dict__.setdefault("_alt_locks", {})
        lock = locks.setdefault(id(_aio.get_running_loop()), _aio.Lock())
        async with lock:
            return await self._exchange_locked(pdu, request_id)

    async def _exchange_locked(self, pdu: PDU, request_id: int) -> PDU:
        packet, _ = await self.mpm.encode(""")


def alt_roworder(src):
    """tablify returns the rows in the opposite order (its documentation: 'should not be considered ordered in any way')"""
    rep(src + "/puresnmp/util.py", "    return list(rows.values())\n", "    return list(rows.values())[::-1]\n")


def alt_longlen(src):
    """v1 / v2c requests leave with the outer SEQUENCE length in the definite long form with a spare octet (RFC 3417 section 8
    permits more than the minimum number of length octets)"""
    helper = """

def _alt_longlen(data: bytes) -> bytes:
    first = data[1]
    if first < 0x80:
        head, length = 2, first
    else:
        n = first & 0x7F
        head, length = 2 + n, int.from_bytes(data[2:2 + n], "big")
    body = data[head:head + length]
    return data[:1] + b"\\x83" + len(body).to_bytes(3, "big") + body
"""
    for f, cls in (("v2c", "V2CEncodingResult"), ("v1", "V1EncodingResult")):
        path = src + "/puresnmp_plugins/mpm/%s.py" % f
        rep(path, "        return %s(bytes(packet))" % cls, "        return %s(_alt_longlen(bytes(packet)))" % cls)
        s = open(path).read()
        open(path, "w").write(s + helper)


ALTS = {"ids": alt_ids, "socket": alt_socket, "multiwalk": alt_multiwalk, "rooteq": alt_rooteq, "lock": alt_lock,
        "roworder": alt_roworder, "longlen": alt_longlen}


def diff_alternative(path):
    def apply(src):
        root = os.path.dirname(src)
        r = subprocess.run(["patch", "-p1", "-s", "-i", path], cwd=root, text=True, stdout=subprocess.PIPE, stderr=subprocess.STDOUT)
        if r.returncode:
            raise RuntimeError("patch does not apply: %s" % r.stdout[-300:])
    return apply


def main():
    args = sys.argv[1:]
    if "--diffs" in args:
        i = args.index("--diffs")
        want = args[i + 1].split(",") if i + 1 < len(args) and not args[i + 1].startswith("--") else None
        for f in sorted(glob.glob(os.path.join(VERIF, "alternatives", "*.diff"))):
            name = os.path.basename(f)[:-5]
            if want is None or any(name.startswith(w) for w in want):
                ALTS[name] = diff_alternative(f)
        only = [n for n in ALTS if os.path.exists(os.path.join(VERIF, "alternatives", n + ".diff"))]
    else:
        only = args[args.index("--only") + 1].split(",") if "--only" in args else [n for n in ALTS]
    ids = [c["property_id"] for c in json.load(open(os.path.join(VERIF, "MANIFEST.json")))["checks"]]
    if "--checks" in args:
        ids = args[args.index("--checks") + 1].split(",")
    bad = 0
    for name in only:
        tmp = tempfile.mkdtemp(prefix="alt-%s-" % name)
        try:
            shutil.copytree("/repo/src", tmp + "/src")
            ALTS[name](tmp + "/src")
            r = subprocess.run([sys.executable, "-c", "import puresnmp.api.raw, puresnmp.transport, puresnmp_plugins.mpm.v3"],
                               env=dict(os.environ, PYTHONPATH=tmp + "/src"), cwd=tmp)
            if r.returncode:
                print("alternative %s does not import" % name)
                bad += 1
                continue
            for pid in ids:
                env = dict(os.environ, VERIF_REPO_SRC=tmp + "/src", VERIF_NO_EVIDENCE="1", VERIF_REPLAY_DIR=tmp + "/replays")
                p = subprocess.run(["./check", pid, "--quick"], cwd=VERIF, env=env, text=True, stdout=subprocess.PIPE,
                                   stderr=subprocess.STDOUT)
                last = [l for l in p.stdout.splitlines() if l.startswith(pid + " ")][-1:] or [p.stdout[-200:]]
                if any(l.startswith("KNOWN-FINDING") for l in p.stdout.splitlines()):
                    last[0] += "  [KNOWN-FINDING line printed]"
                flag = "" if p.returncode == 0 else "   <<<<<< FALSE ALARM rc=%d" % p.returncode
                print("[%s] %s%s" % (name, last[0], flag), flush=True)
                if p.returncode:
                    bad += 1
                    for l in p.stdout.splitlines():
                        if l.startswith(("VIOLATION", "  #", "HARNESS")):
                            print("      " + l[:300])
        finally:
            shutil.rmtree(tmp, ignore_errors=True)
    print("alarms on conformant alternatives: %d" % bad)
    return 1 if bad else 0


if __name__ == "__main__":
    sys.exit(main())
