#!/bin/bash
# usage: quick_seed.sh SEED CHECK [CHECK...]  -- run checks of the working /verif against a seed in a scratch worktree
seed=$1; shift
wt=/tmp/qs-$seed-$$
git -C /repo worktree add -q --detach $wt HEAD && git -C $wt apply /verif/seeded/$seed/patch.diff || { echo "apply failed"; exit 2; }
for c in "$@"; do
  out=$(cd /verif && VERIF_REPO_SRC=$wt/src VERIF_NO_EVIDENCE=1 VERIF_SHRINK_S=10 VERIF_REPLAY_DIR=$wt/replays ./check $c --quick 2>&1)
  rc=$?
  echo "$seed $c rc=$rc $(echo "$out" | grep '^  # ' | head -1 | cut -c1-260)"
done
git -C /repo worktree remove --force $wt
