"""Keyed stream-transform privacy plug-in, supplied by the verification
harness through the ``puresnmp_plugins.priv`` namespace package.

decrypt_data(encrypt_data(x)) == x for every x; every call is recorded so the
checks can compare what the client handed to the plug-in with what went on
the wire.  (The reference agent has its own, separate implementation of the
same transform in lib/vagent.py.)
"""
import hashlib

IDENTIFIER = "verifstream"
IANA_ID = -99
CALLS = []
COUNTER = [0]
SALT_MODE = ["default"]      # set by the checks: the shape of the salt is the plug-in's own business


def _salt(default):
    """the salt of this call: any octet string is a legal msgPrivacyParameters value"""
    mode = SALT_MODE[0]
    if mode == "default":
        return default
    if mode == "counter16":        # a 128-bit big-endian message counter: fifteen leading zero octets for a long time
        return COUNTER[0].to_bytes(16, "big")
    if mode == "zeros12":
        return b"\x00" * 12
    if mode == "zeros8":
        return b"\x00" * 8
    if mode == "empty":
        return b""
    if mode == "long40":
        return (default * 8)[:40]
    if mode == "ff12":
        return b"\xff" * 12
    raise ValueError(mode)


def _stream(key, salt, n):
    out = b""
    i = 0
    while len(out) < n:
        out += hashlib.sha256(key + salt + i.to_bytes(4, "big")).digest()
        i += 1
    return out[:n]


def encrypt_data(localised_key, engine_id, engine_boots, engine_time, data):
    COUNTER[0] += 1
    salt = _salt((engine_boots & 0xFFFFFFFF).to_bytes(4, "big") + COUNTER[0].to_bytes(4, "big"))
    ct = bytes(a ^ b for a, b in zip(data, _stream(localised_key, salt, len(data))))
    CALLS.append(dict(op="enc", key=localised_key, engine_id=engine_id,
                      boots=engine_boots, time=engine_time, data=data,
                      out=ct, salt=salt))
    return ct, salt


def decrypt_data(localised_key, engine_id, engine_boots, engine_time, salt, data):
    pt = bytes(a ^ b for a, b in zip(data, _stream(localised_key, salt, len(data))))
    CALLS.append(dict(op="dec", key=localised_key, engine_id=engine_id,
                      boots=engine_boots, time=engine_time, data=data,
                      out=pt, salt=salt))
    return pt
