"""C19 -- registered trap listeners receive every matching notification, with
its origin.  DESIGN.md section 3, C19."""
from __future__ import annotations

import asyncio
import ipaddress
import socket
from datetime import timedelta

from hypothesis import strategies as st

import vber
import vloop
import vsandbox
import vstrategies as vs
import vworld
from vrunner import Result, Unit, hypothesis_unit, shard_seed

ID = "C19"
LEVEL = "fault_enumeration"
TECHNIQUE = ("property-based testing (Hypothesis) over datagram SEQUENCES: SNMPv2-Trap datagrams built by the independent encoder "
             "are mixed with foreign-community, other-version, truncated, bit-flipped and random datagrams and injected into the "
             "real SNMPTrapReceiverProtocol obtained from register_trap_callback on a capturing event loop (and through real "
             "UDP sockets on 127.0.0.1 / ::1); oracle = exactly the valid matching ones are delivered, once, in order, with "
             "content and origin intact")
RULE = ("case = listener community x sequence of 1..12 datagrams from {valid v2c trap (sysUpTime, snmpTrapOID, 0..8 payload bindings of "
        "every type), the same bytes again from another or the same sender, consecutive notifications of one origin (same address, port and request-id), foreign community (incl. ones differing only by non-ASCII octets), SNMPv1 / SNMPv3 datagram, truncation, single bit flip, random bytes} x source addresses "
        "(IPv4 2-tuples, IPv6 4-tuples); non-trivial = a valid datagram arrives after an invalid one, or a valid datagram has >= 3 "
        "payload bindings; distinct = SHA-1 of canonical JSON case")
ASSUMPTIONS = [
    "an exception raised out of datagram_received is handled as asyncio does (logged by the loop's exception handler, listener alive)",
    "a mutated datagram that the independent decoder still reads as a matching, well-formed SNMPv2-Trap must be delivered with the content read; one it reads as foreign-community must not be delivered; a datagram whose outermost TLV is not a SEQUENCE or announces more octets than arrived must not be delivered; for anything else the strict decoder rejects, or a well-formed non-notification PDU, either outcome is accepted",
    "runs under the x690 indefinite-length guard (known finding of C20) and a CPU alarm",
]
REQUIRED_CLASSES = {"valid_after_invalid": 0.18, "ipv6_source": 0.06, "other_version_first": 0.03, "payload>=3": 0.12}   # (60 % of the fractions first required: room for seed-to-seed variation)

UPTIME = (1, 3, 6, 1, 2, 1, 1, 3, 0)
TRAPOID = (1, 3, 6, 1, 6, 3, 1, 1, 4, 1, 0)


def build_trap(item):
    vbs = [(UPTIME, vber.T_TICKS, vber.int_content(item["uptime"])),
           (TRAPOID, vber.T_OID, vber.oid_content(item["trap_oid"]))]
    vbs += [(tuple(o), t, bytes.fromhex(h)) for o, t, h in item["vbs"]]
    pdu = vber.enc_pdu(item.get("pdu", vber.PDU_TRAP), item.get("rid", 12345), 0, 0, vbs)
    return vber.enc_community_message(item.get("version", 1), item["community"].encode("latin-1"), pdu)


def datagram_of(item, items):
    k = item["kind"]
    if k in ("valid", "foreign"):
        return build_trap(item)
    if k == "version":
        if item["v"] == 0:
            return build_trap(dict(item, version=0))
        # an SNMPv3 discovery-style probe
        sp = vber.enc_usm_params(b"", 0, 0, b"", b"", b"")
        body = vber.enc_scoped_pdu(b"", b"", vber.enc_pdu(vber.PDU_GET, 7, 0, 0, []))
        return vber.enc_v3_message(7, 65507, 4, 3, sp, body)
    if k == "repeat":
        return datagram_of(items[item["of"]], items)
    if k == "random":
        return bytes.fromhex(item["hex"])
    if k == "short":
        return bytes.fromhex("3003020103")
    base = build_trap(item["base"])
    if k == "truncate":
        return base[:item["n"] % max(1, len(base))]
    if k == "flip":
        b = bytearray(base)
        bit = item["bit"] % (len(b) * 8)
        b[bit // 8] ^= 0x80 >> (bit % 8)
        return bytes(b)
    raise ValueError(k)


def _outer_truncated(data):
    """definite outer length larger than what follows it"""
    if len(data) < 2:
        return True
    first = data[1]
    if first < 0x80:
        return first > len(data) - 2
    n = first & 0x7F
    if n == 0 or len(data) < 2 + n:
        return n != 0
    return int.from_bytes(data[2:2 + n], "big") > len(data) - 2 - n


def classify(data, community):
    """-> ('deliver', content) | ('drop',) | ('either',) per the independent decoder"""
    try:
        m = vber.parse_message(data)
    except vber.BerError:
        # what the strict decoder rejects is not necessarily malformed for a lenient one -- but some datagrams are no SNMP
        # message under any reading: the outermost TLV is not a SEQUENCE, or it announces more octets than arrived
        if not data or data[0] != 0x30:
            return ("drop",)
        try:
            _tag, start, end = vber.read_tlv(data, 0)
        except vber.BerError:
            return ("drop",) if _outer_truncated(data) else ("either",)
        return ("either",)
    if m["version"] == 3:
        return ("either",)      # not an SNMPv2c datagram; the statement does not say what happens to it
    if m["community"] != community.encode("latin-1"):
        return ("drop",)
    if m["version"] != 1:
        return ("either",)      # SNMPv1 framing around a matching community: unspecified
    pdu = m["pdu"]
    if pdu["tag"] != vber.PDU_TRAP:
        return ("either",)
    try:
        content = [(o,) + vber.typed_value(t, c) for o, t, c in pdu["vbs"]]
    except (vber.BerError, ValueError, OverflowError):
        return ("either",)
    if pdu["f1"] != 0:
        return ("either",)     # an error-status in a notification: not a well-formed notification
    for c in content:
        for o in (c[0], c[2] if c[1] == "ObjectIdentifier" else ()):
            if len(o) >= 2 and o[0] == 2 and o[1] >= 40:
                return ("either",)   # first arcs x690 documents as unsupported: outside the stated domain
    if len(content) < 2 or content[0][1] != "TimeTicks" or content[1][1] != "ObjectIdentifier":
        return ("either",)
    return ("deliver", content)


VIRT_PORT0 = 20000


def virt_addr(i, item, same=False):
    """the source address of the i-th injected datagram in the virtual tier: the item's host, a port of its own -- or, in a
    case marked same_origin, the item's own address and port (one agent sending again and again from one socket)"""
    a = addr_of(item)
    if same:
        return a
    return (a[0], VIRT_PORT0 + i) + tuple(a[2:])


def addr_of(item):
    a = item.get("addr", ["192.0.2.9", 40001])
    return tuple(a)


def inject_virtual(case):
    """-> (deliveries [(seq index, trap)], callback_errors)"""
    from puresnmp.api.raw import register_trap_callback

    got = []
    cur = {"i": None}

    n_items = len(case["items"])
    same = bool(case.get("same_origin"))

    async def callback(trap):
        # attributed by where the datagram came from (every injected datagram has its own source port), so that a delivery
        # which takes its time -- a listener may decode in a worker task or thread -- is not taken for the next datagram's
        i = cur["i"]
        try:
            k = -1 if same else trap.source.port - VIRT_PORT0
            if 0 <= k < n_items and trap.source.address == virt_addr(k, case["items"][k])[0]:
                i = k
        except Exception:  # noqa
            pass
        got.append((i, trap))

    expect_deliver = [classify(datagram_of(it, case["items"]), case["community"])[0] == "deliver" for it in case["items"]]

    def wait_for(i, budget):
        """give a delivery that is due a bounded amount of REAL time (the loop's clock is virtual)"""
        import time as _t

        end = _t.time() + budget
        while not any(j == i for j, _ in got) and _t.time() < end:
            _t.sleep(0.005)
            try:
                loop.drain(1)
            except vloop.Deadlock:
                pass

    loop = vloop.VLoop()
    old = vworld._LOOP
    errors = []
    try:
        asyncio.set_event_loop(loop)
        register_trap_callback(callback, listen_address="127.0.0.1", port=0,
                               credentials=vworld.V2C(case["community"]), loop=loop)
        if not loop.transports:
            return None, ["create_datagram_endpoint was never called"]
        proto = loop.transports[0].protocol
        for i, item in enumerate(case["items"]):
            data = datagram_of(item, case["items"])
            cur["i"] = i
            try:
                with vsandbox.cpu_budget(8):
                    proto.datagram_received(data, virt_addr(i, item, same))
            except vsandbox.HangDetected:
                errors.append("HANG on datagram %d" % i)
            except Exception as e:  # noqa  (asyncio would log it and go on)
                errors.append("%d: %s: %s" % (i, type(e).__name__, e))
            try:
                loop.drain(3)
            except vloop.Deadlock:
                pass
            if expect_deliver[i] and not any(j == i for j, _ in got):
                wait_for(i, 0.3)
        errors += ["loop: " + e for e in loop.callback_errors if "callback" in e.lower() and "Trap" in e]
    finally:
        try:
            loop.close()
        except Exception:  # noqa
            pass
        asyncio.set_event_loop(old if old is not None and not old.is_closed() else None)
    return got, errors


def inject_loopback(case):
    from puresnmp.api.raw import register_trap_callback

    got = []

    async def callback(trap):
        got.append((None, trap))

    v6 = case.get("listen_v6", False)
    loop = asyncio.new_event_loop()
    old = vworld._LOOP
    try:
        asyncio.set_event_loop(loop)
        fam = socket.AF_INET6 if v6 else socket.AF_INET
        host = "::1" if v6 else "127.0.0.1"
        probe = socket.socket(fam, socket.SOCK_DGRAM)
        probe.bind((host, 0))
        port = probe.getsockname()[1]
        probe.close()
        register_trap_callback(callback, listen_address=host, port=port, credentials=vworld.V2C(case["community"]), loop=loop)
        sender = socket.socket(fam, socket.SOCK_DGRAM)
        sender.bind((host, 0))
        src = sender.getsockname()

        want_n = sum(1 for item in case["items"] if classify(datagram_of(item, case["items"]), case["community"])[0] == "deliver")

        async def play():
            for item in case["items"]:
                d = datagram_of(item, case["items"])
                if d:
                    sender.sendto(d, (host, port))
                await asyncio.sleep(0.01)
            # real time is not a correctness signal: wait (up to 3 s) until everything expected has arrived, then a
            # little longer for anything that should NOT arrive
            for _ in range(300):
                if len(got) >= want_n:
                    break
                await asyncio.sleep(0.01)
            await asyncio.sleep(0.05)

        loop.set_exception_handler(lambda l, c: None)
        with vsandbox.cpu_budget(20):
            loop.run_until_complete(play())
        sender.close()
    finally:
        try:
            for t in asyncio.all_tasks(loop):
                t.cancel()
            loop.run_until_complete(asyncio.sleep(0))
            # close the listening transport(s)
            loop.close()
        except Exception:  # noqa
            pass
        asyncio.set_event_loop(old if old is not None and not old.is_closed() else None)
    return got, [], src


def run_case(case) -> Result:
    from puresnmp.api.pythonic import TrapInfo

    vsandbox.install_guard()
    community = case["community"]
    items = case["items"]
    classes = set()
    expect = []
    seen_invalid = False
    nontrivial = False
    for i, item in enumerate(items):
        data = datagram_of(item, items)
        c = classify(data, community)
        expect.append(c)
        if item["kind"] == "repeat" and c[0] == "deliver":
            classes.add("same_bytes_from_two_senders")
        if c[0] == "deliver":
            if seen_invalid:
                classes.add("valid_after_invalid")
                nontrivial = True
            if len(c[1]) - 2 >= 3:
                classes.add("payload>=3")
                nontrivial = True
            if len(addr_of(item)) == 4:
                classes.add("ipv6_source")
        else:
            seen_invalid = True
            if i == 0 and item["kind"] == "version":
                classes.add("other_version_first")
    loopback = case.get("tier") == "loopback"
    classes.add("tier=loopback" if loopback else "tier=virtual")
    src = None
    if loopback:
        got, errors, src = inject_loopback(case)
    else:
        got, errors = inject_virtual(case)
        if got is None:
            return Result(None, False, sorted(classes) + ["factory_not_used"], inconclusive=True)
    cls = sorted(classes)
    head = "listener community=%r, %d datagrams%s" % (community, len(items), " (loopback)" if loopback else "")

    def bad(msg):
        return Result("%s: %s" % (head, msg), nontrivial, cls)

    if any(e.startswith("HANG") for e in errors):
        return Result(None, nontrivial, cls + ["cpu_budget_hit"], inconclusive=True)
    # align deliveries with the sequence
    same = bool(case.get("same_origin")) and not loopback
    if same:
        classes.add("same_origin_sequence")
        cls = sorted(classes)
    if loopback or same:
        # datagrams of one origin cannot be told apart by their source: compared by count and, in arrival order, by content
        must = [e for e in expect if e[0] == "deliver"]
        if any(e[0] == "either" for e in expect):
            return Result(None, False, cls + ["ambiguous_in_loopback"])
        if len(got) != len(must):
            return bad("%d notifications delivered, %d valid matching datagrams were sent" % (len(got), len(must)))
        srcs = [src] * len(must) if loopback else [virt_addr(i, items[i], True) for i, e in enumerate(expect) if e[0] == "deliver"]
        pairs = list(zip(must, [t for _, t in got], srcs))
    else:
        by_index = {}
        for i, trap in got:
            by_index.setdefault(i, []).append(trap)
        pairs = []
        for i, e in enumerate(expect):
            d = by_index.get(i, [])
            if e[0] == "deliver":
                if len(d) != 1:
                    return bad("datagram %d (%s) is a well-formed matching notification but was delivered %d times%s" % (
                        i, items[i]["kind"], len(d), ("; listener errors: %s" % errors[:2]) if errors else ""))
                pairs.append((e, d[0], virt_addr(i, items[i]) if not loopback else addr_of(items[i])))
            elif e[0] == "drop":
                if d:
                    return bad("datagram %d (%s: foreign community / other version) was delivered to the callback" % (i, items[i]["kind"]))
            # 'either': nothing to check
        order = [i for i, _ in got]
        if order != sorted(order):
            classes.add("delivered_out_of_arrival_order")     # (the statement does not prescribe an order)
    delivered_objs = [t for _, t, _ in pairs]
    if len({id(t) for t in delivered_objs}) != len(delivered_objs):
        return bad("two deliveries handed the SAME Trap object to the callback (a later datagram overwrites the earlier one's origin)")
    for e, trap, addr in pairs:
        content = e[1]
        try:
            have = [vworld.observe_vb(vb) for vb in trap.value.varbinds]
        except Exception as ex:  # noqa
            return bad("the delivered Trap cannot be read: %s: %s" % (type(ex).__name__, ex))
        if have != content or any(type(h[2]) is not type(c[2]) for h, c in zip(have, content)):
            return bad("delivered bindings %r, sent %r" % (have[:6], content[:6]))
        if type(trap).__name__ != "Trap":
            return bad("delivered object is a %s, not a Trap" % type(trap).__name__)
        srcinfo = trap.source
        if srcinfo is None or srcinfo.address != addr[0] or srcinfo.port != addr[1]:
            return bad("Trap.source is %r, the datagram came from %r" % (srcinfo, addr[:2]))
        ti = TrapInfo(trap)
        if ti.origin != addr[0]:
            return bad("TrapInfo.origin is %r, the datagram came from %r" % (ti.origin, addr[0]))
        if ti.uptime != timedelta(milliseconds=10 * content[0][2]):
            return bad("TrapInfo.uptime is %r, sent %d ticks" % (ti.uptime, content[0][2]))
        if ti.oid != ".".join(str(x) for x in content[1][2]):
            return bad("TrapInfo.oid is %r, sent %r" % (ti.oid, content[1][2]))
        want_vals = {".".join(str(x) for x in c[0]): vber.pythonized(*_tc(c)) for c in content[2:]}
        if ti.values != want_vals:
            return bad("TrapInfo.values %r, sent %r" % (ti.values, want_vals))
    return Result(None, nontrivial, cls)


def _tc(c):
    """(oid, name, value) -> (tag, content) for vber.pythonized"""
    name, val = c[1], c[2]
    tag = {v: k for k, v in vber.TYPE_NAMES.items()}[name]
    if name == "ObjectIdentifier":
        return tag, vber.oid_content(val)
    if name == "IpAddress":
        return tag, ipaddress.IPv4Address(val).packed
    if name in ("OctetString", "Opaque"):
        return tag, val
    if name in ("Null", "NoSuchObject", "NoSuchInstance", "EndOfMibView"):
        return tag, b""
    return tag, vber.int_content(val)


# (any octet string is a community: blanks at either end, upper case, a single blank, 255 octets; the API takes the community as an ASCII str)
COMMUNITIES = ["public", "traps", "x", "a" * 40, "noc-traps ", " lead", "tab\t", "Mixed Case", " ", "z" * 255]
ADDR = st.one_of(
    st.tuples(st.sampled_from(["192.0.2.9", "10.0.0.1", "127.0.0.1", "255.255.255.255"]), st.integers(1, 65535)).map(list),
    st.tuples(st.sampled_from(["192.0.2.9", "10.0.0.1"]), st.integers(1, 65535)).map(list),
    st.tuples(st.sampled_from(["::1", "fe80::1", "2001:db8::7"]), st.integers(1, 65535), st.just(0), st.sampled_from([0, 2])).map(list))


@st.composite
def trap_item(draw, community):
    n = draw(st.sampled_from([0, 1, 2, 3, 4, 8]))
    vbs = []
    for i in range(n):
        o = list(draw(vs.oid_value()))
        vbs.append([o + [i]] + draw(vs.value()))
    return dict(kind="valid", community=community, uptime=draw(vs.uint32()),
                trap_oid=list(draw(st.sampled_from([(1, 3, 6, 1, 6, 3, 1, 1, 5, 1), (1, 3, 6, 1, 6, 3, 1, 1, 5, 3), (1, 3, 6, 1, 4, 1, 9, 9, 41, 2, 0, 1)]))),
                vbs=vbs, rid=draw(st.sampled_from([0, 1, 12345, 2 ** 31 - 1])), addr=draw(ADDR))


@st.composite
def cases(draw):
    community = draw(st.sampled_from(COMMUNITIES))
    n = draw(st.integers(1, 12))
    items = []
    # one agent that keeps sending from the same address and port, half of the time with a constant request-id (many
    # agents always send 0): consecutive notifications of one origin are separate notifications, each delivered once
    main_addr, main_rid = draw(ADDR), draw(st.sampled_from([0, 0, 1, 12345, 2 ** 31 - 1]))
    for i in range(n):
        k = draw(st.sampled_from(["valid", "valid", "valid", "foreign", "version", "truncate", "flip", "flip", "random", "short"]))
        if i == 0 and draw(st.integers(0, 5)) == 0:
            k = "version"
        base = draw(trap_item(community))
        if draw(st.integers(0, 2)) != 0:
            base["addr"] = main_addr
            if draw(st.booleans()):
                base["rid"] = main_rid
        if k == "valid":
            items.append(base)
        elif k == "foreign":
            items.append(dict(base, kind="foreign", community=draw(st.sampled_from(
                ["private", "Public", "", community + "x", community + "\xff", "\xe9" + community, community[:1] + "\x80" + community[1:],
                 community.strip() or "x", community + " ", " " + community, community.lower(), community.upper()]))))
        elif k == "version":
            items.append(dict(base, kind="version", v=draw(st.sampled_from([0, 3])),
                              community=draw(st.sampled_from([community, "other"]))))
        elif k == "truncate":
            items.append(dict(kind="truncate", base=base, n=draw(st.integers(0, 400)), addr=base["addr"]))
        elif k == "flip":
            items.append(dict(kind="flip", base=base, bit=draw(st.one_of(st.integers(0, 4000), st.integers(0, 4000), st.integers(0, 23))), addr=base["addr"]))
        elif k == "short":
            items.append(dict(kind="short", addr=base["addr"]))
        else:
            items.append(dict(kind="random", hex=draw(st.binary(min_size=0, max_size=120)).hex(), addr=base["addr"]))
        if items[-1]["kind"] == "valid" and draw(st.integers(0, 3)) == 0:
            # the very same bytes once more, from another sender
            items.append(dict(kind="repeat", of=len(items) - 1, addr=draw(st.one_of(ADDR, st.just(items[-1]["addr"])))))
    case = dict(community=community, items=items[:14])
    if draw(st.integers(0, 2)) == 0:
        # every datagram keeps the source address AND port of its item (the default gives each datagram a port of its own)
        case["same_origin"] = True
    return case


@st.composite
def loop_cases(draw):
    c = draw(cases())
    items = [it for it in c["items"] if it["kind"] in ("valid", "foreign", "version", "short")][:6]
    for it in items:
        it.pop("addr", None)
    if not items:
        items = [draw(trap_item(c["community"]))]
        items[0].pop("addr", None)
    return dict(tier="loopback", community=c["community"], items=items, listen_v6=draw(st.booleans()))


def units(tier, seed):
    n = 150 if tier == "quick" else 2500
    us = [Unit("hyp-%d" % sh, hypothesis_unit, strategy=cases(), examples=n, seed=shard_seed(seed, sh),
               label="hyp-%d" % sh) for sh in range(14)]
    m = 6 if tier == "quick" else 25
    us += [Unit("loopback-%d" % sh, hypothesis_unit, strategy=loop_cases(), examples=m, seed=shard_seed(seed, 100 + sh),
                label="loopback-%d" % sh, shrink=False) for sh in range(2)]
    return us
