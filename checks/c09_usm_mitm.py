"""C09 -- USM: no unauthenticated, altered or downgraded response is ever
accepted.  DESIGN.md section 3, C09."""
from __future__ import annotations

import hashlib

from hypothesis import strategies as st

import vagent
import vber
import vclock
import vsandbox
import vworld
from vrunner import Result, Unit, enumeration_unit, hypothesis_unit, shard_seed

ID = "C09"
LEVEL = "fault_enumeration"
TECHNIQUE = ("fault enumeration by a man in the middle: EVERY single-bit flip of authentic responses (exhaustive per base "
             "message) plus Hypothesis-generated structural forgeries (flags, digest variants, re-signing with other keys / "
             "users / engines incl. a second legitimate user the process talked as before, plaintext substitution under every PDU class, "
             "garbage ciphertext, unauthenticated Reports, forged replies to every later discovery) delivered to the real "
             "client; oracle: the call raises, or returns exactly what the authentic response carried -- and raises whenever the "
             "answer was replaced by an unauthenticated Report")
RULE = ("case = user {MD5, SHA-1} x {authNoPriv, authPriv} x operation {get, multiget, getnext, set, bulkget, walk, bulkwalk, walk in lenient mode (errors=warn)} x "
        "which response of the operation is attacked x mutant {bit i of the authentic response | forgery (msgFlags 0..7, digest "
        "none / zeros / original / truncated 1..11 / 13 octets / garbage / re-signed with another password, algorithm, or the key of a second legitimate user the client talked as before, user "
        "name same / other / empty, engine id same / other, payload: attacker bindings in clear / authentic plaintext in clear / "
        "attacker bindings in clear under another PDU class (Trap, Inform, request PDUs) / original body / garbage ciphertext / Report with usmStats, arbitrary or no bindings, error-status 0 or 2)}; non-trivial "
        "= the mutant differs from the authentic response and still parses as BER under the independent decoder; distinct = "
        "the mutant's SHA-1")
ASSUMPTIONS = [
    "outcome must be an exception or exactly the authentic result (a mutant that re-serialises to the same content is fine)",
    "no search for cryptographic weaknesses of HMAC-MD5/SHA-1-96; replay of old authentic responses is outside the listed quantifier",
    "deliveries that hit the x690 indefinite-length guard are attributed to known finding x690_indefinite_no_terminator (C20), counted and continue as exceptions",
]
EXHAUSTIVE = lambda tier: "every single-bit flip of every base response (%d bases)" % len(bases(tier))
_REQUIRED_BASE = {"forgery": 0.006}   # (60 % of the fractions first required: room for seed-to-seed variation)
# generator health of the newer case families (quick tier: the thorough tier dilutes them with enumerated units)
_REQUIRED_QUICK = {"after_other_user": 0.009}   # (60 % of the fractions first required: room for seed-to-seed variation)


def REQUIRED_CLASSES(tier):
    return dict(_REQUIRED_BASE, **(_REQUIRED_QUICK if tier == "quick" else {}))

TBL = (1, 3, 6, 1, 4, 1, 66, 2, 1)
SCALAR = (1, 3, 6, 1, 4, 1, 66, 1, 0)
EVIL = (vber.T_OCTETS, b"EVIL")
USERS = [vworld.V3_PROTOS[1], vworld.V3_PROTOS[2], vworld.V3_PROTOS[3], vworld.V3_PROTOS[4]]
OPS = ["get", "multiget", "getnext", "set", "bulkget", "walk", "bulkwalk", "walk_warn"]
WALKS = ("walk", "bulkwalk", "walk_warn")


def make_db(fill=5):
    db = {SCALAR: (vber.T_OCTETS, b"v" * fill), (1, 3, 6, 1, 4, 1, 66, 3, 0): (vber.T_INT, b"\x2a")}
    for r in range(1, 6):
        db[TBL + (1, r)] = (vber.T_GAUGE, bytes([r]))
    return db


async def _op(client, op):
    O = vworld.OID
    if op == "get":
        return vworld.observe(await client.get(O(SCALAR)))
    if op == "multiget":
        return [vworld.observe(v) for v in await client.multiget([O(SCALAR), O(TBL + (1, 2))])]
    if op == "getnext":
        return vworld.observe_vb(await client.getnext(O(TBL)))
    if op == "set":
        return vworld.observe(await client.set(O(SCALAR), vworld.make_value(vber.T_OCTETS, b"written")))
    if op == "bulkget":
        r = await client.bulkget([O(SCALAR[:-1])], [O(TBL)], max_list_size=3)
        return ([(vworld.oid_tuple(k),) + vworld.observe(v) for k, v in r.scalars.items()],
                [(vworld.oid_tuple(k),) + vworld.observe(v) for k, v in r.listing.items()])
    if op == "walk":
        return [vworld.observe_vb(vb) async for vb in client.walk(O(TBL))]
    if op == "bulkwalk":
        return [vworld.observe_vb(vb) async for vb in client.bulkwalk([O(TBL)], bulk_size=2)]
    if op == "walk_warn":
        # lenient mode tolerates a faulty AGENT; it is no licence to act on what an attacker sends
        return [vworld.observe_vb(vb) async for vb in client.walk(O(TBL), errors="warn")]
    raise ValueError(op)


_AUTH = {}


def authentic(ui, op, fill):
    """-> (result, [authentic responses per data request])"""
    k = (ui, op, fill)
    if k not in _AUTH:
        agent, client = vworld.make_world(USERS[ui], make_db(fill), request_cap=40)
        with vclock.fixed(1_700_000_000):
            try:
                res = vworld.run(_op(client, op))
            except Exception as e:  # noqa
                if not vworld.f10b_excusable(agent, e):
                    raise
                res = "F10B"
        _AUTH[k] = (res, [r["response"] for r in agent.log if not r.get("discovery")])
    return _AUTH[k]


MONITOR_PW = b"monitor-password"     # a second, low-privilege user of the same engine whose password the attacker knows


def monitor_proto(proto):
    return {"v": "3", "user": "monitor", "algo": proto["algo"], "auth_pw": MONITOR_PW.hex()}


def authentic_isolated(ui, op, fill):
    """authentic(), computed in a forked child: the reference exchange as the target user must not be the first thing the
    library's module state of THIS process sees when the case is about what happens after another user was first"""
    import os
    import pickle

    k = (ui, op, fill)
    if k in _AUTH:
        return _AUTH[k]
    r, w = os.pipe()
    pid = os.fork()
    if pid == 0:
        try:
            os.close(r)
            try:
                blob = pickle.dumps(("ok", authentic(ui, op, fill)))
            except BaseException as e:  # noqa
                blob = pickle.dumps(("exc", "%s: %s" % (type(e).__name__, e)))
            with os.fdopen(w, "wb") as f:
                f.write(blob)
        finally:
            os._exit(0)
    os.close(w)
    with os.fdopen(r, "rb") as f:
        blob = f.read()
    os.waitpid(pid, 0)
    kind, val = pickle.loads(blob)
    if kind != "ok":
        raise RuntimeError("reference exchange failed in the child: %s" % val)
    return val


OTHER_PW = b"attacker-password"
OTHER_USER = b"mallory"
OTHER_ENGINE = b"\x80\x00\x1f\x88\x80evil-engine"


def forge(agent, req, resp, spec):
    m = vber.parse_message(resp)
    user = agent.users[req["user"]]
    rid = req["pdu"]["rid"]
    name = {"same": user.name, "other": OTHER_USER, "empty": b""}[spec["user"]]
    engine = agent.engine_id if spec["engine"] == "same" else OTHER_ENGINE
    vbs_auth = list(req.get("answer", (0, 0, []))[2])
    evil_vbs = [(o,) + EVIL for o, _, _ in vbs_auth] or [(SCALAR,) + EVIL]
    p = spec["payload"]
    salt = m["salt"]
    if p == "orig":
        body = vber.tlv(m["body_tag"], m["body"])
    elif p == "evil_plain":
        body = vber.enc_scoped_pdu(req["ctx_engine"], req["ctx_name"], vber.enc_pdu(vber.PDU_RESPONSE, rid, 0, 0, evil_vbs))
        salt = b"" if spec.get("drop_salt") else salt
    elif p == "evil_plain_tag":
        # the attacker's bindings under another PDU class (a notification, a request) with the pending request id
        tag = [0xA7, 0xA6, 0xA0, 0xA1, 0xA3, 0xA5, 0xA7, 0xA7][spec.get("n", 0) % 8]
        body = vber.enc_scoped_pdu(req["ctx_engine"], req["ctx_name"], vber.enc_pdu(tag, rid, 0, 0, evil_vbs))
        salt = b"" if spec.get("drop_salt") else salt
    elif p == "plain_authentic":
        body = req["response_scoped"]
    elif p == "garbage_cipher":
        body = vber.enc_octets(hashlib.sha256(b"garbage%d" % spec.get("n", 0)).digest() * (1 + spec.get("n", 0) % 4))
    elif p.startswith("report"):
        if p == "report_usm":
            rvbs = [(vagent.OID_WRONG_DIGEST if spec.get("n", 0) % 2 else vagent.OID_NOT_IN_WINDOW, vber.T_COUNTER, b"\x01")]
        elif p == "report_any":
            rvbs = evil_vbs
        else:
            rvbs = []
        body = vber.enc_scoped_pdu(req["ctx_engine"], req["ctx_name"],
                                   vber.enc_pdu(vber.PDU_REPORT, rid, spec.get("es", 0), spec.get("ei", 0), rvbs))
        salt = b""
    else:
        raise ValueError(p)
    d = spec["digest"]
    kw = dict(engine_id=engine, salt=salt)
    flags = spec["flags"]
    if d == "none":
        return agent.build_v3(req["msg_id"], flags, name, body, digest=b"", **kw)
    if d == "zeros":
        return agent.build_v3(req["msg_id"], flags, name, body, digest=b"\x00" * 12, **kw)
    if d == "orig":
        return agent.build_v3(req["msg_id"], flags, name, body, digest=m["digest"], **kw)
    if d.startswith("trunc"):
        return agent.build_v3(req["msg_id"], flags, name, body, digest=m["digest"][:int(d[5:])], **kw)
    if d == "13":
        return agent.build_v3(req["msg_id"], flags, name, body, digest=m["digest"] + b"\x00", **kw)
    if d == "garbage":
        return agent.build_v3(req["msg_id"], flags, name, body, digest=hashlib.md5(body).digest()[:12], **kw)
    if d == "resign_otherpw":
        key = vagent.password_to_key_fast(user.algo, OTHER_PW, engine)
        return agent.build_v3(req["msg_id"], flags, name, body, auth_key=key, algo=user.algo, **kw)
    if d == "resign_trunc":
        # a valid-looking digest computed with the attacker's key, cut short
        key = vagent.password_to_key_fast(user.algo, OTHER_PW, engine)
        full = agent.build_v3(req["msg_id"], flags, name, body, auth_key=key, algo=user.algo, **kw)
        dg = vber.parse_message(full)["digest"]
        return agent.build_v3(req["msg_id"], flags, name, body, digest=dg[:spec.get("n", 0) % 12], **kw)
    if d == "resign_monitor":
        # signed with the key of ANOTHER legitimate user of this engine (whom the client may have talked as before)
        key = vagent.password_to_key_fast(user.algo, MONITOR_PW, engine)
        return agent.build_v3(req["msg_id"], flags, name, body, auth_key=key, algo=user.algo, **kw)
    if d == "resign_otheralgo":
        algo = "sha1" if user.algo == "md5" else "md5"
        key = vagent.password_to_key_fast(algo, user.auth_pw, engine)
        return agent.build_v3(req["msg_id"], flags, name, body, auth_key=key, algo=algo, **kw)
    raise ValueError(d)


def run_case(case) -> Result:
    vsandbox.install_guard()
    ui, op, at, fill = case["user"], case["op"], case["at"], case.get("fill", 5)
    proto = USERS[ui]
    try:
        want, responses = (authentic_isolated if case.get("prelude") else authentic)(ui, op, fill)
    except Exception as e:  # noqa
        # the un-attacked exchange itself fails on this tree: nothing to compare an attack with (C10 judges authentic exchanges)
        return Result(None, False, ["reference_exchange_failed:%s" % type(e).__name__], inconclusive=True)
    if want == "F10B":
        return Result("the authentic exchange itself is refused: AuthenticationError on a response with a 127-octet TLV",
                      False, ["base_hits_known_finding"], known="reencoded_len_127")
    at = min(at, len(responses) - 1)
    st8 = dict(n=0, mutant=None, authentic=None)

    disco_attack = case.get("spec", {}).get("then_disco") if case["kind"] == "forgery" else None

    def forge_disco(agent, req, resp, how):
        """what an on-path attacker can put in place of a (never authenticated) discovery reply"""
        m = vber.parse_message(resp)
        rid = m["pdu"]["rid"]
        vbs = m["pdu"]["vbs"]
        if how == "es2":
            body = vber.enc_scoped_pdu(m["ctx_engine"], m["ctx_name"], vber.enc_pdu(vber.PDU_REPORT, rid, 2, 1, vbs))
            return agent.build_v3(m["msg_id"], 0, b"", body)
        if how == "es5_response":
            body = vber.enc_scoped_pdu(m["ctx_engine"], m["ctx_name"], vber.enc_pdu(vber.PDU_RESPONSE, rid, 5, 0, vbs))
            return agent.build_v3(m["msg_id"], 0, b"", body)
        if how == "other_engine":
            body = vber.enc_scoped_pdu(OTHER_ENGINE, b"", vber.enc_pdu(vber.PDU_REPORT, rid, 0, 0, vbs))
            return agent.build_v3(m["msg_id"], 0, b"", body, engine_id=OTHER_ENGINE)
        if how == "other_time":
            body = vber.enc_scoped_pdu(m["ctx_engine"], m["ctx_name"], vber.enc_pdu(vber.PDU_REPORT, rid, 0, 0, vbs))
            return agent.build_v3(m["msg_id"], 0, b"", body, boots=agent.boots + 7, time=5)
        if how == "novb":
            body = vber.enc_scoped_pdu(m["ctx_engine"], m["ctx_name"], vber.enc_pdu(vber.PDU_REPORT, rid, 0, 0, []))
            return agent.build_v3(m["msg_id"], 0, b"", body)
        raise ValueError(how)

    def mangle(agent, req, resp):
        if st8.get("prelude"):
            return resp
        if req.get("discovery"):
            # multi-step attack: every discovery exchange AFTER the attacked response (e.g. a re-discovery the first
            # forgery provoked) -- or, with at == -1, the very first one -- is answered by the attacker as well
            if disco_attack and (st8["mutant"] is not None or case.get("disco_first")):
                st8["disco_forged"] = st8.get("disco_forged", 0) + 1
                if st8["mutant"] is None:
                    st8["mutant"] = st8["authentic"] = b""
                out = forge_disco(agent, req, resp, disco_attack)
                st8["mutant"] = st8["mutant"] + out
                return out
            return resp
        i = st8["n"]
        st8["n"] += 1
        if i != at:
            return resp
        st8["authentic"] = resp
        if case["kind"] == "flip":
            b = bytearray(resp)
            bit = case["bit"]
            if bit >= len(b) * 8:
                return resp
            b[bit // 8] ^= 0x80 >> (bit % 8)
            out = bytes(b)
        else:
            out = forge(agent, req, resp, case["spec"])
        st8["mutant"] = out
        return out

    if case.get("prelude"):
        # history: the same process first talks to the engine as the low-privilege user "monitor" (a second client object)
        mon = monitor_proto(proto)
        agent, client = vworld.make_world(proto, make_db(fill), request_cap=40,
                                          users=[vworld.agent_user(proto), vworld.agent_user(mon)])
        agent.mangle = mangle
        st8["prelude"] = True
        try:
            with vclock.fixed(1_700_000_000):
                other = vworld.Client("192.0.2.1", vworld.creds(mon), sender=agent)
                got = vworld.observe(vworld.run(other.get(vworld.OID(SCALAR))))
        except Exception as e:  # noqa
            # (not this property's business: C10 judges whether authentic exchanges succeed)
            return Result(None, False, ["prelude_failed:%s" % type(e).__name__], inconclusive=True)
        finally:
            st8["prelude"] = False
        if got != ("OctetString", b"v" * fill):
            return Result(None, False, ["prelude_failed:wrong_result"], inconclusive=True)
        del agent.log[:]
    else:
        agent, client = vworld.make_world(proto, make_db(fill), request_cap=40)
        agent.mangle = mangle
    classes = [vworld.proto_label(proto), "op=" + op, case["kind"]] + (["after_other_user"] if case.get("prelude") else [])
    if case["kind"] == "forgery":
        classes.append("payload=" + case["spec"]["payload"])
        if case["spec"].get("then_disco"):
            classes.append("multi_step_with_forged_discovery")
    exc = res = None
    hits0 = vsandbox.GUARD_HITS[0]
    try:
        with vclock.fixed(1_700_000_000), vsandbox.cpu_budget(8):
            try:
                res = vworld.run(_op(client, op))
            except vagent.AgentInternalError as e:
                return Result("client sent something the reference agent cannot handle: %s" % e, False, classes)
            except vagent.CapExceeded as e:
                exc = e
            except Exception as e:  # noqa
                exc = e
    except vsandbox.HangDetected:
        vworld._LOOP = None
        return Result(None, False, classes + ["cpu_budget_hit"], inconclusive=True)
    except MemoryError:
        return Result(None, False, classes + ["memory_limit_hit"], inconclusive=True)
    obs = {}
    if vsandbox.GUARD_HITS[0] != hits0:
        classes.append("x690_guard_hit")
    mutant = st8["mutant"]
    if mutant is None:
        return Result(None, False, classes + ["not_applied"])
    parses = True
    try:
        vber.parse_message(mutant)
    except vber.BerError:
        parses = False
    nontrivial = mutant != st8["authentic"] and parses
    classes.append("parses" if parses else "unparseable")
    key = hashlib.sha1(mutant).hexdigest()
    if exc is not None:
        classes.append("refused")
        return Result(None, nontrivial, classes, key=key)
    if res == want:
        classes.append("authentic_result")
        if (case["kind"] == "forgery" and case["spec"]["payload"].startswith("report") and not case["spec"]["flags"] & 1
                and not st8.get("disco_forged") and parses):
            # "The only unauthenticated content ever acted upon is a Report, and it can only surface as an error": here the
            # attacked answer was REPLACED by an unauthenticated Report, yet the call returned (the client must have gone on
            # to repeat the request on the strength of it)
            return Result("%s %s, response #%d replaced by an UNAUTHENTICATED Report (%r): the call returned normally (%r) -- the "
                          "Report did not surface as an error; data requests seen by the agent: %d" % (
                              vworld.proto_label(proto), op, at, case["spec"], res,
                              len([r for r in agent.log if not r.get("discovery")])), nontrivial, classes, key=key)
        return Result(None, nontrivial, classes, key=key)
    return Result("%s %s, attacked response #%d, %s: the caller got %r without an exception; the authentic response carried %r "
                  "(mutant %s)" % (vworld.proto_label(proto), op, at,
                                   ("bit %d flipped" % case["bit"]) if case["kind"] == "flip" else "forgery %r" % (case["spec"],),
                                   res, want, mutant.hex()[:400]), nontrivial, classes, key=key)


def bases(tier):
    out = []
    ops = ["get", "getnext", "walk", "walk_warn"] if tier == "quick" else OPS
    for ui in range(len(USERS)):
        for op in ops:
            for at in ((0, 1) if op in WALKS else (0,)):
                if tier == "quick" and op in WALKS and at == 0:
                    continue
                out.append((ui, op, at, 5))
    if tier == "thorough":
        # response sizes crossing the 127/128 and 255/256 length boundaries
        for ui in range(len(USERS)):
            for fill in (40, 60, 170, 200):
                out.append((ui, "get", 0, fill))
    return out


class _Flips:
    def __init__(self, base, lo, hi):
        self.a = (base, lo, hi)

    def __iter__(self):
        (ui, op, at, fill), lo, hi = self.a
        try:
            _, responses = authentic(ui, op, fill)
        except Exception:  # noqa
            # the un-attacked exchange fails on this tree: one case, which run_case reports as inconclusive
            yield dict(kind="flip", user=ui, op=op, at=at, fill=fill, bit=lo)
            return
        n = len(responses[min(at, len(responses) - 1)]) * 8
        for bit in range(lo, min(hi, n)):
            yield dict(kind="flip", user=ui, op=op, at=at, fill=fill, bit=bit)


SPEC = st.fixed_dictionaries(dict(
    flags=st.sampled_from([0, 0, 1, 1, 3, 3, 4, 5, 7, 2, 6]),
    digest=st.sampled_from(["none", "none", "zeros", "orig", "orig", "trunc0", "trunc1", "trunc4", "trunc11", "13", "garbage",
                            "resign_otherpw", "resign_otherpw", "resign_trunc", "resign_otheralgo", "resign_monitor", "resign_monitor"]),
    user=st.sampled_from(["same", "same", "same", "other", "empty"]),
    engine=st.sampled_from(["same", "same", "same", "other"]),
    payload=st.sampled_from(["evil_plain", "evil_plain", "evil_plain", "evil_plain_tag", "evil_plain_tag", "plain_authentic", "orig", "garbage_cipher",
                             "report_usm", "report_usm", "report_any", "report_any", "report_empty", "report_empty"]),
    then_disco=st.sampled_from([None, None, None, "es2", "es2", "es5_response", "other_engine", "other_time", "novb"]),
    es=st.sampled_from([0, 0, 2, 5]), ei=st.sampled_from([0, 1]), n=st.integers(0, 23), drop_salt=st.booleans()))


@st.composite
def forgeries(draw):
    op = draw(st.sampled_from(OPS))
    case = dict(kind="forgery", user=draw(st.integers(0, len(USERS) - 1)), op=op,
                at=draw(st.integers(0, 2)) if op in WALKS else 0, fill=draw(st.sampled_from([5, 5, 60, 170])),
                spec=draw(SPEC))
    if case["spec"]["digest"] == "resign_monitor" or draw(st.integers(0, 5)) == 0:
        case["prelude"] = True          # the client (process) talked to the engine as another user before
    if case["spec"]["then_disco"] and draw(st.integers(0, 3)) == 0:
        case["disco_first"] = True      # the attacker already answers the client's first discovery
    return case


class _SecondUser:
    """every case: the process first talks as "monitor", then the target user's operation is answered with a forgery signed
    with monitor's key (a fresh worker process per unit: nothing else has touched the library's module state before)"""

    def __init__(self, ops):
        self.ops = ops

    def __iter__(self):
        for ui in range(len(USERS)):
            for op in self.ops:
                for at in ((0, 1) if op in WALKS else (0,)):
                    for flags in (1, 3, 0):
                        for payload in ("evil_plain", "report_any"):
                            yield dict(kind="forgery", user=ui, op=op, at=at, fill=5, prelude=True,
                                       spec=dict(flags=flags, digest="resign_monitor", user="same", engine="same", payload=payload,
                                                 then_disco=None, es=0, ei=0, n=0, drop_salt=False))


class _UnauthReports:
    """every operation x every kind of UNAUTHENTICATED Report (usmStats, arbitrary or no bindings, error-status 0 / 2) in place of
    the first or second answer: it may only surface as an error"""

    def __iter__(self):
        for ui in range(len(USERS)):
            for op in OPS:
                for at in ((0, 1) if op in WALKS else (0,)):
                    for payload in ("report_usm", "report_any", "report_empty"):
                        for flags in (0, 4):
                            for es in (0, 2):
                                for n in (0, 1):
                                    yield dict(kind="forgery", user=ui, op=op, at=at, fill=5,
                                               spec=dict(flags=flags, digest="none", user="same", engine="same", payload=payload,
                                                         then_disco=None, es=es, ei=1, n=n, drop_salt=True))


def units(tier, seed):
    us = [Unit("unauth-reports", enumeration_unit, cases=_UnauthReports(), label="unauth-reports", exhaustive=False),
          Unit("second-user", enumeration_unit, cases=_SecondUser(["get", "walk"] if tier == "quick" else OPS),
               label="second-user", exhaustive=False)]
    for b in bases(tier):
        for lo in range(0, 2400, 800):
            us.append(Unit("flips-u%d-%s-%d-f%d-%d" % (b[0], b[1], b[2], b[3], lo), enumeration_unit,
                           cases=_Flips(b, lo, lo + 800), label="flips-u%d-%s-%d-f%d-%d" % (b[0], b[1], b[2], b[3], lo),
                           sample_every=211))
    n = 150 if tier == "quick" else 4000
    for sh in range(16):
        us.append(Unit("forge-%d" % sh, hypothesis_unit, strategy=forgeries(), examples=n, seed=shard_seed(seed, sh),
                       label="forge-%d" % sh))
    return us
