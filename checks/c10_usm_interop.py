"""C10 -- USM interop: requests verify under RFC 3414, authentic responses are
accepted.  DESIGN.md section 3, C10."""
from __future__ import annotations

from hypothesis import strategies as st

import vagent
import vber
import vclock
import vworld
from vrunner import Result, Unit, enumeration_unit, hypothesis_unit, shard_seed

ID = "C10"
LEVEL = "exploration"
TECHNIQUE = ("differential interop testing against an independent RFC 3412/3414 implementation (lib/vagent.py: key "
             "localisation, HMAC-MD5/SHA-1-96 over the bytes as received, usmStats counters): Hypothesis-generated multi-session "
             "cases (users sharing passwords / engines / names inside one process) + deterministic sweeps over every password "
             "length 1..300 and over payload sizes that drive every message / scoped PDU / PDU length through 100..300")
RULE = ("case = 1..3 sessions in one process, each = user (MD5 | SHA-1, with / without privacy, password 1..300 octets, name) x "
        "engine id 5..32 octets (incl. runs of zero octets) x optional context engine id / name x operation {get, multiget, getnext, set, multiset, bulkget, walk, "
        "bulkwalk} x payload length; sessions may share password, engine id and user name; request side: flags = level + "
        "reportable, engine id / boots / time / user as discovered, digest verifies, usmStats stay 0; response side: the "
        "authentic minimal-BER response is accepted and decoded; non-trivial = password length not dividing 2^20, or a TLV "
        "length at 127/128/255/256, or a non-GET operation, or >= 2 sessions sharing a secret; distinct = SHA-1 of canonical JSON case")
ASSUMPTIONS = [
    "lib/vagent.py implements RFC 3414 A.2 password-to-key and localisation (checked against the RFC A.3 vectors at start-up) and HMAC-96 over the message as received with the digest octets zeroed",
    "privacy uses the harness plug-ins (keyed stream transform); DES/AES plug-ins are not part of this repository",
    "known finding reencoded_len_127 is excluded only when BOTH the trigger (a 127-octet TLV in the authentic response) and the signature (AuthenticationError) are present",
]
REQUIRED_CLASSES = {"shared_secret": 0.06, "priv": 0.12, "op_nonget": 0.18, "len_boundary": 0.018}   # (60 % of the fractions first required: room for seed-to-seed variation)

SCALAR = (1, 3, 6, 1, 4, 1, 42, 1, 0)
COL = (1, 3, 6, 1, 4, 1, 42, 2, 1, 1)


def make_db(fill):
    db = {SCALAR: (vber.T_OCTETS, b"\x5a" * fill), (1, 3, 6, 1, 4, 1, 42, 3, 0): (vber.T_INT, b"\x07")}
    for r in (1, 2, 3):
        db[COL + (r,)] = (vber.T_GAUGE, bytes([r]))
    return db


def _proto(s):
    p = {"v": "3", "user": s["user"], "engine_id": s["engine_id"]}
    if s.get("algo"):
        p.update(algo=s["algo"], auth_pw=s["auth_pw"])
    if s.get("priv_pw"):
        p.update(priv_pw=s["priv_pw"], priv=s.get("priv", "verifstream"))
    if s.get("ctx_engine"):
        p["ctx_engine"] = s["ctx_engine"]
    if s.get("ctx_name"):
        p["ctx_name"] = s["ctx_name"]
    return p


def run_session(s, classes):
    """-> (violation|None, known, facts)"""
    proto = _proto(s)
    fill = s.get("fill", 6)
    db = make_db(fill)
    agent, client = vworld.make_world(proto, db, request_cap=40)
    O = vworld.OID
    op = s["op"]
    setval = b"\xa5" * s.get("setlen", 3)

    async def go():
        if op == "get":
            return vworld.observe(await client.get(O(SCALAR)))
        if op == "multiget":
            return [vworld.observe(v) for v in await client.multiget([O(SCALAR), O(COL + (2,))])]
        if op == "getnext":
            return vworld.observe_vb(await client.getnext(O(COL)))
        if op == "set":
            return vworld.observe(await client.set(O(SCALAR), vworld.make_value(vber.T_OCTETS, setval)))
        if op == "multiset":
            r = await client.multiset({O(SCALAR): vworld.make_value(vber.T_OCTETS, setval),
                                       O(COL + (1,)): vworld.make_value(vber.T_GAUGE, b"\x09")})
            return sorted((vworld.oid_tuple(k), vworld.observe(v)) for k, v in r.items())
        if op == "bulkget":
            r = await client.bulkget([O(SCALAR[:-1])], [O(COL)], max_list_size=2)
            return ([(vworld.oid_tuple(k),) + vworld.observe(v) for k, v in r.scalars.items()],
                    [(vworld.oid_tuple(k),) + vworld.observe(v) for k, v in r.listing.items()])
        if op == "walk":
            return [vworld.observe_vb(vb) async for vb in client.walk(O(COL))]
        if op == "bulkwalk":
            return [vworld.observe_vb(vb) async for vb in client.bulkwalk([O(COL)], bulk_size=2)]
        raise ValueError(op)

    want = {
        "get": ("OctetString", b"\x5a" * fill),
        "multiget": [("OctetString", b"\x5a" * fill), ("Gauge", 2)],
        "getnext": (COL + (1,), "Gauge", 1),
        "set": ("OctetString", setval),
        "multiset": sorted([(SCALAR, ("OctetString", setval)), (COL + (1,), ("Gauge", 9))]),
        "bulkget": ([(SCALAR, "OctetString", b"\x5a" * fill)], [(COL + (1,), "Gauge", 1), (COL + (2,), "Gauge", 2)]),
        "walk": [(COL + (r,), "Gauge", r) for r in (1, 2, 3)],
        "bulkwalk": [(COL + (r,), "Gauge", r) for r in (1, 2, 3)],
    }[op]
    exc = res = None
    with vclock.fixed(s.get("clock", 1_700_000_000)):
        try:
            res = vworld.run(go())
        except vagent.AgentInternalError as e:
            return "the client emitted something the independent implementation cannot parse: %s" % e, None
        except vagent.CapExceeded:
            return "%s sent more than 40 requests" % op, None
        except Exception as e:  # noqa
            exc = e
    user = agent.users[s["user"].encode("ascii")]
    level = user.level
    label = "%s %s user=%r pwlen=%d engine=%s" % (vworld.proto_label(proto), op, s["user"],
                                                   len(bytes.fromhex(s.get("auth_pw", ""))), s["engine_id"])
    # ---- request side: what the independent implementation saw -------------
    data = [r for r in agent.log if not r.get("discovery")]
    disco = [r for r in agent.log if r.get("discovery")]
    if not disco:
        return "%s: no discovery probe was sent" % label, None
    for r in data:
        lens = [len(r["raw"]), r["lengths"].get("message"), r["lengths"].get("scoped"), r["lengths"].get("cipher"), r.get("pdu_len")]
        if any(x in (127, 128, 255, 256) for x in lens if x is not None):
            classes.add("len_boundary")
        if r["flags"] != (level | 4):
            return "%s: msgFlags %#04x, the credentials need %#04x (level %d + reportable)" % (label, r["flags"], level | 4, level), None
        if r["engine_id"] != agent.engine_id:
            return "%s: msgAuthoritativeEngineID %s, discovered %s" % (label, r["engine_id"].hex(), agent.engine_id.hex()), None
        if r["user"] != user.name:
            return "%s: msgUserName %r" % (label, r["user"]), None
        if level & 1:
            if r["boots"] != agent.boots or abs(r["time"] - r["engine_time_at"]) > 150:
                return "%s: boots/time %d/%d, the agent is at %d/%d" % (label, r["boots"], r["time"], agent.boots, r["engine_time_at"]), None
            if len(r["digest"]) != 12:
                return "%s: digest of %d octets" % (label, len(r["digest"])), None
        if r.get("verdict") != "accepted":
            return "%s: the independent RFC 3414 implementation answers %s to the request %s" % (
                label, r.get("verdict"), r["raw"].hex()[:240]), None
    bad = {k: v for k, v in agent.stats.items() if v and k != "unknownEngine"}
    if bad or agent.stats["unknownEngine"] != len(disco):
        return "%s: usmStats counters moved: %r (discovery probes: %d)" % (label, agent.stats, len(disco)), None
    if not data:
        return "%s: no request was sent (%r)" % (label, exc), None
    # ---- response side ---------------------------------------------------------
    for r in data:
        resp = r.get("response", b"")
        try:
            m = vber.parse_message(resp)
            if any(x in (127, 128, 255, 256) for x in [len(resp), m["lengths"].get("message"), m["lengths"].get("scoped"),
                                                       m["lengths"].get("cipher"), m.get("pdu_len")] if x is not None):
                classes.add("len_boundary")
        except vber.BerError:
            pass
    if exc is not None:
        if vworld.f10b_excusable(agent, exc):
            return "%s: AuthenticationError on an authentic response with a 127-octet TLV" % label, "reencoded_len_127"
        return "%s: an authentic response was not accepted: %s: %s" % (label, type(exc).__name__, exc), None
    if res != want:
        return "%s: returned %r, the agent answered %r" % (label, res, want), None
    return None, None


def run_case(case, exclude_known=True) -> Result:
    classes = set()
    sessions = case["sessions"]
    secrets = [(s.get("auth_pw"), s["engine_id"]) for s in sessions if s.get("auth_pw")]
    if len(sessions) >= 2 and (len({a for a, _ in secrets}) < len(secrets) or len({e for _, e in secrets}) < len(secrets)):
        classes.add("shared_secret")
    nontrivial = "shared_secret" in classes
    for s in sessions:
        if s.get("priv_pw"):
            classes.add("priv")
        if s["op"] != "get":
            classes.add("op_nonget")
            nontrivial = True
        n = len(bytes.fromhex(s.get("auth_pw", "")))
        if n and (1 << 20) % n:
            nontrivial = True
        classes.add(s.get("algo") or "noauth")
    for i, s in enumerate(sessions):
        msg, known = run_session(s, classes)
        if "len_boundary" in classes:
            nontrivial = True
        if msg is not None:
            return Result("session %d: %s" % (i, msg), nontrivial, sorted(classes), known=known)
    return Result(None, nontrivial, sorted(classes))


def replay_known(case) -> Result:
    return run_case(case)


# --------------------------------------------------------------------------

ENGINES = [b"\x80\x00\x1f\x88\x80verif-agent", b"\x80\x00\x00\x09\x05" + b"\x00" * 12 + b"\x00\x00\x2a",
           b"\x80\x00\x02\xb8\x02\xfe\x80" + b"\x00" * 13 + b"\x01", b"\x00" * 12 + b"\x01", b"12345", b"\xff" * 32,
           bytes.fromhex("000000000000000000000002")]
OPS = ["get", "multiget", "getnext", "set", "multiset", "bulkget", "walk", "bulkwalk"]


@st.composite
def session(draw, pool):
    algo = draw(st.sampled_from(["md5", "sha1", "md5", "sha1", None]))
    s = dict(user=draw(st.sampled_from(["usr", "admin", "monitor-md5", "x" * 32, "a"])),
             engine_id=draw(st.one_of(st.sampled_from(ENGINES), st.binary(min_size=5, max_size=32))).hex(),
             op=draw(st.sampled_from(OPS)), fill=draw(st.one_of(st.integers(0, 40), st.integers(0, 260))),
             setlen=draw(st.one_of(st.integers(0, 40), st.integers(0, 260))),
             clock=draw(st.sampled_from([1_700_000_000, 5, 2 ** 31 - 1])))
    if draw(st.integers(0, 4)) == 0:
        s["ctx_engine"] = draw(st.one_of(st.sampled_from(ENGINES), st.binary(min_size=5, max_size=32))).hex()
    if draw(st.integers(0, 4)) == 0:
        s["ctx_name"] = draw(st.binary(min_size=1, max_size=40)).hex()
    if algo:
        s["algo"] = algo
        pw = draw(st.one_of(st.sampled_from(pool), st.binary(min_size=1, max_size=40), st.binary(min_size=1, max_size=300)))
        s["auth_pw"] = pw.hex()
        if draw(st.booleans()):
            s["priv_pw"] = draw(st.one_of(st.just(pw), st.sampled_from(pool), st.binary(min_size=1, max_size=64))).hex()
            s["priv"] = draw(st.sampled_from(["verifstream", "verifblock"]))
    return s


@st.composite
def cases(draw):
    pool = draw(st.lists(st.binary(min_size=1, max_size=24), min_size=2, max_size=3))
    n = draw(st.sampled_from([1, 2, 2, 3]))
    sessions = [draw(session(pool)) for _ in range(n)]
    if n >= 2 and draw(st.booleans()):
        # the classic sharing patterns: same password + same engine with the other hash; same password, other engine;
        # same user name with another password
        a = sessions[0]
        b = dict(sessions[1])
        pat = draw(st.sampled_from(["other_hash", "other_engine", "other_password"]))
        if a.get("algo"):
            if pat == "other_hash":
                b.update(algo="sha1" if a["algo"] == "md5" else "md5", auth_pw=a["auth_pw"], engine_id=a["engine_id"])
            elif pat == "other_engine":
                b.update(algo=a["algo"], auth_pw=a["auth_pw"])
            else:
                b.update(algo=a["algo"], user=a["user"], engine_id=a["engine_id"],
                         auth_pw=draw(st.binary(min_size=1, max_size=24)).hex())
            if b.get("priv_pw") is None and a.get("priv_pw") and pat != "other_password":
                b.update(priv_pw=a["priv_pw"], priv=a.get("priv", "verifstream"))
            sessions[1] = b
    return dict(sessions=sessions)


class _PwSweep:
    def __init__(self, algo, lo, hi, seed):
        self.a = (algo, lo, hi, seed)

    def __iter__(self):
        import hashlib

        algo, lo, hi, seed = self.a
        for n in range(lo, hi):
            pw = hashlib.sha256(b"%d/%d" % (seed, n)).digest() * 10
            eng = b"\x80\x00\x1f\x88" + hashlib.md5(b"%d" % n).digest()[: 1 + n % 28]
            yield dict(sessions=[dict(user="usr", algo=algo, auth_pw=pw[:n].hex(), engine_id=eng.hex(), op="get",
                                      **({"priv_pw": pw[5:5 + n].hex(), "priv": "verifstream"} if n % 3 == 0 else {}))])


class _LenSweep:
    def __init__(self, spec, op, lo, hi):
        self.a = (spec, op, lo, hi)

    def __iter__(self):
        spec, op, lo, hi = self.a
        for L in range(lo, hi):
            yield dict(sessions=[dict(spec, op=op, fill=L if op != "set" else 4, setlen=L if op == "set" else 3)])


SWEEP_USERS = [
    dict(user="md5user", algo="md5", auth_pw=b"authpass-md5".hex(), engine_id=ENGINES[0].hex()),
    dict(user="shauser", algo="sha1", auth_pw=b"authpass-sha".hex(), engine_id=ENGINES[0].hex()),
    dict(user="md5priv", algo="md5", auth_pw=b"authpass-md5".hex(), priv_pw=b"privpass-md5".hex(), priv="verifstream",
         engine_id=ENGINES[0].hex()),
    dict(user="shapriv", algo="sha1", auth_pw=b"authpass-sha".hex(), priv_pw=b"privpass-sha".hex(), priv="verifblock",
         engine_id=ENGINES[1].hex()),
]


def units(tier, seed):
    us = []
    for algo in ("md5", "sha1"):
        for k in range(3):
            us.append(Unit("pwlen-%s-%d" % (algo, k), enumeration_unit, cases=_PwSweep(algo, 1 + k * 100, 101 + k * 100, seed),
                           label="pwlen-%s-%d" % (algo, k), exhaustive=False, sample_every=37))
    users = SWEEP_USERS[:1] if tier == "quick" else SWEEP_USERS
    ops = ["get", "set"] if tier == "quick" else ["get", "set", "multiget", "bulkwalk"]
    for u in users:
        for op in ops:
            for lo in range(0, 240, 80):
                us.append(Unit("len-%s-%s-%d" % (u["user"], op, lo), enumeration_unit, cases=_LenSweep(u, op, lo, lo + 80),
                               label="len-%s-%s-%d" % (u["user"], op, lo), exhaustive=False, sample_every=41))
    n = 60 if tier == "quick" else 1500
    for sh in range(8 if tier == "quick" else 16):
        us.append(Unit("hyp-%d" % sh, hypothesis_unit, strategy=cases(), examples=n, seed=shard_seed(seed, sh),
                       label="hyp-%d" % sh))
    return us
