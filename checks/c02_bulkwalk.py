"""C02 -- Bulk walk returns exactly what the GETNEXT walk returns.
DESIGN.md section 3, C02."""
from __future__ import annotations

import itertools

from hypothesis import strategies as st

import vagent
import vber
import vstrategies as vs
import vworld
from checks import c01_walk as c01
from vrunner import Result, Unit, enumeration_unit, hypothesis_unit, shard_seed

ID = "C02"
LEVEL = "exploration"
TECHNIQUE = ("property-based testing (Hypothesis): differential bulkwalk vs GETNEXT multiwalk on the "
             "same generated agent, plus absolute set-exactness against the agent database, under "
             "generated conformant GETBULK truncation policies; small-scope enumeration in thorough")
RULE = ("case = C01 database/roots x bulk size 1..50 (weighted to 1,2,3,n-1,n,n+1 of a subtree size) x "
        "per-response truncation script (full / k rows / cut after k bindings / per-mille fraction / a fixed small limit of 1..5 bindings for the whole walk / no "
        "early stop) x v2c,v3 x raw/pythonic entry; non-trivial = (>=2 roots of different subtree size, or "
        "an empty subtree, or bulk size not dividing a subtree size, or a truncation fired) and >=2 "
        "instances below some root; distinct = SHA-1 of canonical JSON case")
ASSUMPTIONS = [
    "reference agent implements RFC 3416 4.2.3 GETBULK incl. conformant truncation (any suffix of the repeater bindings removed, >= 1 binding kept)",
    "instances whose OID equals a root are ignored in the differential comparison (C01 accepts both outcomes for them)",
    "zero-binding GETBULK responses (conformant, but no client can make progress on them) are not generated",
]
REQUIRED_CLASSES = {"multi_root": 0.12, "truncation_fired": 0.06, "empty_subtree": 0.06, "bulk_not_dividing": 0.06}   # (60 % of the fractions first required: room for seed-to-seed variation)


def run_case(case) -> Result:
    db = vworld.db_from_case(case["db"])
    roots = case["roots"]
    roots_t = [tuple(r) for r in roots]
    bulk = case["bulk"]
    api = case["api"]
    sizes = [sum(1 for o in db if c01._below(o, r)) for r in roots_t]
    classes = set(case.get("flags", []))
    if len(roots) >= 2:
        classes.add("multi_root")
    if 0 in sizes:
        classes.add("empty_subtree")
    if any(s % bulk for s in sizes if s):
        classes.add("bulk_not_dividing")
    classes.add(vworld.proto_label(case["proto"]))
    classes.add("api=" + api)

    async def bulk_run(client):
        if api == "bulkwalk":
            return [vworld.observe_vb(vb) async for vb in
                    client.bulkwalk([vworld.OID(r) for r in roots], bulk_size=bulk)]
        py = vworld.PyWrapper(client)
        return [("py", vb.oid, vb.value, type(vb.oid).__name__) async for vb in
                py.bulkwalk([vagent.S(r) for r in roots], bulk_size=bulk)]

    got, order, viol, agent = c01.walk_once(
        case, roots, api, what=api, bulk=bulk_run)
    fired = bool(agent.bulk_fired)
    if fired:
        classes.add("truncation_fired")
        for t in set(agent.trace):
            classes.add(t)
    nontrivial = max(sizes, default=0) >= 2 and bool(
        classes & {"empty_subtree", "bulk_not_dividing", "truncation_fired"}
        or (len(roots) >= 2 and len(set(sizes)) > 1))
    classes = sorted(classes)
    subrow = "subrow_truncation" in agent.trace
    if viol == "F10B":
        return Result("AuthenticationError on an authentic response with a 127-octet TLV",
                      nontrivial, classes, known="reencoded_len_127")
    if viol:
        return Result(viol, nontrivial, classes)
    pythonic = api.startswith("py")
    viol = c01.check_against_db(case, roots, got, order, api, pythonic)
    if viol:
        # known finding F02b: response cut inside the first row, signature
        # "missing only"
        known = "subrow_truncation" if (subrow and " lost " in viol) else None
        return Result(viol, nontrivial, classes, known=known)
    # differential half: the GETNEXT walk of the same roots on a fresh agent
    ref_api = "pymultiwalk" if pythonic else "multiwalk"
    nobulk = dict(case)
    nobulk["bulk_script"] = []
    g2, o2, v2, _ = c01.walk_once(nobulk, roots, ref_api, what=ref_api)
    if v2 == "F10B":
        return Result(None, nontrivial, classes)
    if v2:
        return Result("reference GETNEXT walk failed: " + v2, nontrivial, classes)
    rs = set(roots_t)
    a = {o: v for o, v in got.items() if o not in rs}
    b = {o: v for o, v in g2.items() if o not in rs}
    if a != b:
        only_bulk = sorted(set(a) - set(b))
        only_next = sorted(set(b) - set(a))
        return Result("bulkwalk(bulk_size=%d) and multiwalk disagree: only bulk %s, only getnext %s" % (
            bulk, [vagent.S(o) for o in only_bulk[:3]], [vagent.S(o) for o in only_next[:3]]),
            nontrivial, classes)
    return Result(None, nontrivial, classes,
                  observations={"max_requests": len(agent.log), "max_truncations": len(agent.bulk_fired)})


POLICY = st.one_of(
    st.just(["full"]),
    st.tuples(st.just("rows"), st.integers(1, 4)).map(list),
    st.tuples(st.just("cut"), st.integers(1, 12)).map(list),
    st.tuples(st.just("frac"), st.sampled_from([100, 300, 500, 700, 900])).map(list),
)


@st.composite
def cases(draw, v3_weight=1, allow_subrow=True):
    w = draw(vs.walk_world())
    db = vworld.db_from_case(w["db"])
    sizes = [sum(1 for o in db if c01._below(o, tuple(r))) for r in w["roots"]]
    near = sorted({max(1, s + d) for s in sizes for d in (-1, 0, 1)})
    bulk = draw(st.one_of(st.sampled_from([1, 2, 3]), st.sampled_from(near), st.integers(1, 50), st.integers(1, 50),
                          # every repetition count: up to the largest max-repetitions the PDU can carry
                          st.sampled_from([127, 128, 255, 256, 65535, 2 ** 30, 2 ** 30 + 1, 2 ** 31 - 1])))
    script = draw(st.one_of(st.just([]), st.lists(POLICY, min_size=1, max_size=8),
                            # an agent with a small fixed limit of bindings per response, for the whole walk
                            st.integers(1, 5).map(lambda L: [["cut", L]] * 80)))
    w["bulk"] = bulk
    w["bulk_script"] = script
    w["early_stop"] = draw(st.sampled_from([True, True, True, False]))
    w["proto"] = draw(vs.proto(v3_weight=v3_weight))
    w["api"] = draw(st.sampled_from(["bulkwalk", "bulkwalk", "bulkwalk", "pybulkwalk"]))
    w["volatile"] = draw(st.sampled_from([False, False, True]))
    return w


def small_scope(shard, nshards):
    """C01's small scope x bulk sizes 1..4 x {full, one row, mid-row cut}."""
    n = 0
    for base in c01.small_scope(0, 1):
        for bulk in (1, 2, 3, 4):
            for script in ([], [["rows", 1]] * 6, [["cut", len(base["roots"]) + 1]] * 6):
                n += 1
                if n % nshards != shard:
                    continue
                c = dict(base)
                c.update(bulk=bulk, bulk_script=script, api="bulkwalk", early_stop=True)
                yield c


def units(tier, seed):
    out = []
    if tier == "quick":
        for sh in range(16):
            out.append(Unit("hyp-%d" % sh, hypothesis_unit, strategy=cases(),
                            examples=100, seed=shard_seed(seed, sh), label="hyp-%d" % sh))
    else:
        for sh in range(16):
            out.append(Unit("hyp-%d" % sh, hypothesis_unit, strategy=cases(v3_weight=2),
                            examples=2500, seed=shard_seed(seed, sh), label="hyp-%d" % sh))
        for sh in range(16):
            out.append(Unit("small-scope-%d" % sh, enumeration_unit,
                            cases=small_scope(sh, 16), label="small-scope-%d" % sh,
                            sample_every=200))
    return out


def EXHAUSTIVE(tier):
    if tier == "thorough":
        return ("C01's small scope (3 slots x 0..3 instances, all root subsets and listing orders) x "
                "bulk sizes 1..4 x {no truncation, one row per response, cut after R+1 bindings}")
    return None
