"""C13 -- UDP sender: bounded retries, exact timeout behaviour, no socket left
open.  DESIGN.md section 3, C13."""
from __future__ import annotations

import asyncio
import itertools
import os
import time

from hypothesis import strategies as st

import vagent
import vber
import vloop
import vworld
from puresnmp.exc import Timeout
from puresnmp.transport import Endpoint, send_udp
from vrunner import Result, Unit, enumeration_unit, hypothesis_unit, shard_seed

ID = "C13"
LEVEL = "fault_enumeration"
TECHNIQUE = ("fault enumeration in virtual time: ALL sequences of per-attempt outcomes {reply, empty reply, nothing, late reply, "
             "duplicate reply, ICMP error, connection lost} up to the retry budget are played against the real send_udp / "
             "SNMPClientProtocol on an event loop whose clock is virtual and whose datagram endpoints are scripted and recorded; "
             "oracle = a model of attempts; the environment of the call (IPv4 / IPv6 endpoint, DEBUG logging, reply size up to 65507 octets) "
             "is enumerated / drawn as well; plus a real-socket tier on 127.0.0.1 and ::1 (fd accounting via /proc/self/fd)")
RULE = ("virtual tier: case = retries 1..3 (4 in thorough) x timeout {0.5, 1, 2.5, 6} x one outcome per potential attempt from "
        "{reply at 0.4T, empty reply at 0.3T, nothing, reply at 1.5T, two replies at 0.2T/0.6T, ICMP error at 0.5T, connection lost at "
        "0.5T} (all sequences), called directly or through Client.get with configured timeout / retries; generated cases with retries 1..6 and event times at {0.001 .. 0.999, 1.001, 1.5, 2.75, 3.25} x timeout (never a whole multiple); loopback tier: scripted "
        "UDP responder and closed ports on 127.0.0.1 and ::1; both tiers also vary the environment of the call (IPv4 / IPv6 endpoint, "
        "DEBUG logging of puresnmp.transport on / off) and the size of the reply (1 .. 65507 octets, the largest UDP payload); non-trivial = >= 2 attempts and at least one non-reply outcome; distinct = "
        "the tuple itself")
ASSUMPTIONS = [
    "model of asyncio's datagram transport: nothing is delivered after close()/abort(); connection_lost is scheduled by call_soon",
    "outcomes are scripted per transmission: one socket per attempt and one socket for all attempts are both accepted (then a reply that is late for its own attempt may legitimately answer a later one)",
    "an OS error / connection loss during an attempt may propagate to the caller OR count as an unanswered attempt (the next attempt may start at once or after the timeout)",
    "on real sockets elapsed time is only bounded from below",
]
EXHAUSTIVE = lambda tier: "all outcome sequences over 7 outcomes for retries 1..%d x 4 timeouts x {send_udp, Client.get}" % (3 if tier == "quick" else 4)

KINDS = ["reply", "empty", "none", "late", "dup", "icmp", "lost"]
REQUEST = bytes.fromhex("302602010104067075626c6963a019020455aa00110201000201003" "00b300906052b060102010500")
REPLY = b"\x30\x03REPLY-BYTES\x00\xff"
MAX_UDP = 65507          # largest UDP payload over IPv4 (65535 - 20 - 8); ::1 carries it as well


def reply_of(case):
    """the reply datagram of a case: the short default or `reply_len` octets (1 .. the largest possible UDP payload)"""
    n = case.get("reply_len")
    if not n:
        return REPLY
    return (REPLY * (n // len(REPLY) + 1))[:n]
OID = (1, 3, 6, 1, 2, 1, 1, 5, 0)


def script_for(kind, T, fr=None):
    """fr: optional fraction of the timeout at which the event happens (generated cases); fr >= 1 means 'too late'"""
    if fr is not None:
        if kind in ("reply", "empty", "late"):
            return dict(kind=("empty" if kind == "empty" else "reply") if fr < 1 else "late", d=fr * T, empty=(kind == "empty"))
        if kind == "dup":
            return dict(kind="dup" if fr < 1 else "late", d=fr * T, d2=(fr + 0.3) * T)
        if kind in ("icmp", "lost"):
            return dict(kind=kind if fr < 1 else "none", d=fr * T, errno=111 if kind == "icmp" else 101)
        return dict(kind="none")
    return {"reply": dict(kind="reply", d=0.4 * T), "empty": dict(kind="empty", d=0.3 * T), "none": dict(kind="none"),
            "late": dict(kind="late", d=1.5 * T), "dup": dict(kind="dup", d=0.2 * T, d2=0.6 * T),
            "icmp": dict(kind="icmp", d=0.5 * T, errno=111), "lost": dict(kind="lost", d=0.5 * T, errno=101)}[kind]


def acceptable(retries, T, kinds, reply, frs=None):
    acc = []

    def go(k, t0):
        if k == retries:
            acc.append(("timeout", None, t0))
            return
        s = script_for(kinds[k], T, frs[k] if frs else None)
        kind = s["kind"]
        if kind == "reply" and s.get("empty"):
            kind = "empty"
        if kind in ("reply", "dup"):
            acc.append(("ok", reply, t0 + s["d"]))
        elif kind == "empty":
            acc.append(("ok", b"", t0 + s["d"]))
        elif kind in ("icmp", "lost"):
            acc.append(("oserror", s["errno"], t0 + s["d"]))
            go(k + 1, t0 + T)
            go(k + 1, t0 + s["d"])
        else:
            if kind == "late" and s["d"] < (retries - k) * T:
                # an implementation that keeps one socket for all attempts legitimately receives the late reply while
                # it waits for a later attempt (it IS a reply to the identical request)
                acc.append(("ok", b"" if s.get("empty") else reply, t0 + s["d"]))
            go(k + 1, t0 + T)

    go(0, 0.0)
    return acc


def _debug_logging(on):
    """the transport logs every datagram at DEBUG level; what it does must not depend on whether anybody listens"""
    import vrunner

    cm = vrunner.logging_mode(on)
    cm.__enter__()
    return lambda: cm.__exit__(None, None, None)


def run_virtual_case(case) -> Result:
    retries, T, kinds, via = case["retries"], case["timeout"], case["kinds"], case.get("via", "send_udp")
    frs = case.get("fr")
    scripts = [script_for(k, T, frs[i] if frs else None) for i, k in enumerate(kinds)]
    for sc in scripts:
        if sc.get("empty") and sc["kind"] == "reply":
            sc["kind"] = "empty"
    classes = ["tier=virtual", "via=" + via, "retries=%d" % retries] + (["generated_delays"] if frs else [])
    host = "2001:db8::7" if case.get("family") == 6 else "192.0.2.7"
    debug = bool(case.get("debug"))
    if case.get("family") == 6:
        classes.append("ipv6_endpoint")
    if debug:
        classes.append("debug_logging")
    attempts_model = 0
    for k in kinds:
        attempts_model += 1
        if k in ("reply", "dup", "empty"):
            break
    nontrivial = attempts_model >= 2 and any(k not in ("reply",) for k in kinds[:attempts_model])
    agent = vagent.Agent({OID: (vber.T_OCTETS, b"value")})
    if via == "client":
        reply = lambda req: agent.handle_or_timeout(req)  # noqa
    else:
        reply = reply_of(case)
        if case.get("reply_len"):
            classes.append("reply_len=%s" % ("max" if case["reply_len"] >= MAX_UDP else "1" if case["reply_len"] == 1 else "large"
                                             if case["reply_len"] > 1472 else "other"))

    L = vloop.VLoop      # (a callable reply is computed from the request actually sent)

    async def call(loop):
        if via == "client":
            client = vworld.Client(host, vworld.V2C("public"), port=1161)
            client.configure(timeout=T, retries=retries)
            return vworld.observe(await client.get(vworld.OID(OID)))
        if case.get("cancel_at") is not None:
            # the caller's own deadline: the call is cancelled from outside while an attempt is in flight
            return await asyncio.wait_for(send_udp(Endpoint(host, 1161), REQUEST, timeout=T, retries=retries),
                                          case["cancel_at"])
        return await send_udp(Endpoint(host, 1161), REQUEST, timeout=T, retries=retries)

    loop = L(scripts, reply)
    old = vworld._LOOP
    restore_log = _debug_logging(debug)
    try:
        asyncio.set_event_loop(loop)
        try:
            value = loop.run_until_complete(call(loop))
            out = ("ok", value)
        except vloop.Deadlock as e:
            out = ("deadlock", e)
        except Exception as e:  # noqa
            out = ("exc", e)
        t_end = loop.time()
        try:
            loop.drain()
        except vloop.Deadlock:
            pass
        transports = loop.transports
        errors = list(loop.callback_errors)
    finally:
        restore_log()
        try:
            loop.close()
        except Exception:  # noqa
            pass
        asyncio.set_event_loop(old if old is not None and not old.is_closed() else None)
    head = "%s(%s, retries=%d, timeout=%r%s) outcomes=%s" % (via, host, retries, T, ", DEBUG logging on" if debug else "", kinds)

    def bad(msg):
        if len(msg) > 700:
            msg = msg[:500] + " ... " + msg[-150:]
        return Result("%s: %s" % (head, msg), nontrivial, classes)

    if errors:
        return bad("exception in an event-loop callback: %s" % errors[0])
    if out[0] == "deadlock":
        return bad("the call can never complete: %s" % out[1])
    want_reply = reply_of(case) if via != "client" else None
    acc = acceptable(retries, T, kinds, want_reply, frs)
    cancel_at = case.get("cancel_at")
    if cancel_at is not None:
        classes.append("caller_cancels")
        nontrivial = True
        if all(a[2] > cancel_at + 1e-9 for a in acc):
            # every acceptable completion lies after the caller's deadline: the call must end by cancellation
            acc = [("cancelled", None, cancel_at)]
        elif any(a[2] > cancel_at - 1e-9 for a in acc):
            acc.append(("cancelled", None, cancel_at))
    if out[0] == "exc" and isinstance(out[1], (asyncio.TimeoutError, asyncio.CancelledError)) and not isinstance(out[1], Timeout):
        if not [a for a in acc if a[0] == "cancelled" and abs(a[2] - t_end) < 1e-6]:
            return bad("ended by cancellation at virtual time %r; acceptable outcomes: %s" % (t_end, acc))
    elif out[0] == "ok":
        val = out[1]
        if via == "client":
            ok = [a for a in acc if a[0] == "ok" and a[1] is None and abs(a[2] - t_end) < 1e-6]
            if val != ("OctetString", b"value") or not ok:
                return bad("returned %r at virtual time %r; acceptable outcomes: %s" % (val, t_end, acc))
        else:
            ok = [a for a in acc if a[0] == "ok" and a[1] == val and abs(a[2] - t_end) < 1e-6]
            if not ok:
                return bad("returned %r at virtual time %r; acceptable outcomes: %s" % (val, t_end, acc))
    else:
        e = out[1]
        if isinstance(e, Timeout):
            ok = [a for a in acc if a[0] == "timeout" and abs(a[2] - t_end) < 1e-6]
            if not ok:
                return bad("raised Timeout at virtual time %r; acceptable outcomes: %s" % (t_end, acc))
        elif isinstance(e, OSError):
            ok = [a for a in acc if a[0] == "oserror" and a[1] == e.errno and abs(a[2] - t_end) < 1e-6]
            if not ok:
                return bad("raised %r at virtual time %r; acceptable outcomes: %s" % (e, t_end, acc))
        elif via == "client" and any(a[0] == "ok" and "empty" in kinds for a in acc) and not isinstance(e, (AssertionError,)):
            # Client.get on an empty datagram: the decoder refuses it; fine as long as the sender returned it
            ok = [a for a in acc if a[0] == "ok" and abs(a[2] - t_end) < 1e-6]
            if not ok:
                return bad("raised %s: %s at virtual time %r; acceptable outcomes: %s" % (type(e).__name__, e, t_end, acc))
        else:
            return bad("raised %s: %s" % (type(e).__name__, e))
    if not transports:
        return Result(None, False, classes + ["factory_not_used"], inconclusive=True)
    if len(transports) > retries:
        return bad("%d endpoints were opened for retries=%d" % (len(transports), retries))
    first = None
    total_sent = sum(len(tr.sent) for tr in transports)
    if total_sent > retries:
        return bad("%d datagrams were transmitted for retries=%d" % (total_sent, retries))
    if total_sent == 0:
        return bad("nothing was transmitted")
    for i, tr in enumerate(transports):
        for (_t, payload, _a) in tr.sent:
            if via != "client" and payload != REQUEST:
                return bad("endpoint %d transmitted %s, the request is %s" % (i, payload.hex(), REQUEST.hex()))
            first = first or payload
            if payload != first:
                return bad("a retransmission differs from the first transmission")
        if tr.remote_addr is not None and tuple(tr.remote_addr) != (host, 1161):
            return bad("endpoint %d talks to %r" % (i, tr.remote_addr))
        if not tr.closed:
            return bad("the socket of attempt %d is still open after the call has %s and the loop has drained" % (
                i, "returned" if out[0] == "ok" else "raised"))
    if errors:
        return bad("exception in an event-loop callback: %s" % errors[0])
    return Result(None, nontrivial, classes, key=(retries, T, tuple(kinds), via, tuple(frs or ()), case.get("family"), debug, case.get("reply_len")))


# --------------------------------------------------------------------------
# real sockets on 127.0.0.1


def _fds():
    return len(os.listdir("/proc/self/fd"))


class _Responder(asyncio.DatagramProtocol):
    def __init__(self, plan, T, reply=REPLY):
        self.plan = list(plan)
        self.T = T
        self.reply = reply
        self.seen = []
        self.transport = None

    def connection_made(self, transport):
        self.transport = transport

    def datagram_received(self, data, addr):
        i = len(self.seen)
        self.seen.append(bytes(data))
        kind = self.plan[i] if i < len(self.plan) else "none"
        loop = asyncio.get_running_loop()
        if kind == "reply":
            self.transport.sendto(self.reply, addr)
        elif kind == "empty":
            # asyncio's sendto() silently ignores empty payloads; use the socket itself
            import socket

            raw = socket.socket(fileno=os.dup(self.transport.get_extra_info("socket").fileno()))
            try:
                raw.sendto(b"", addr)
            finally:
                raw.close()
        elif kind == "late":
            loop.call_later(1.6 * self.T, lambda: self.transport.is_closing() or self.transport.sendto(self.reply, addr))
        elif kind == "dup":
            self.transport.sendto(self.reply, addr)
            self.transport.sendto(self.reply[::-1], addr)


def run_loopback_case(case) -> Result:
    retries, T, kinds = case["retries"], case["timeout"], case["kinds"]
    classes = ["tier=loopback", "retries=%d" % retries]
    refused = case.get("refused", False)
    v6 = case.get("family") == 6
    lo = "::1" if v6 else "127.0.0.1"
    the_reply = reply_of(case)
    if case.get("reply_len"):
        classes.append("reply_len=%s" % ("max" if case["reply_len"] >= MAX_UDP else "other"))
    debug = bool(case.get("debug"))
    if v6:
        classes.append("ipv6_endpoint")
    if debug:
        classes.append("debug_logging")
    attempts_model = 0
    for k in kinds:
        attempts_model += 1
        if k in ("reply", "dup", "empty"):
            break
    nontrivial = (attempts_model >= 2 and any(k != "reply" for k in kinds[:attempts_model])) or refused
    loop = asyncio.new_event_loop()
    old = vworld._LOOP
    info = {}

    async def go():
        if refused:
            # a port nobody listens on: bind + close to find a free one
            import socket

            s = socket.socket(socket.AF_INET6 if v6 else socket.AF_INET, socket.SOCK_DGRAM)
            s.bind((lo, 0))
            port = s.getsockname()[1]
            s.close()
            resp = None
        else:
            tr, resp = await loop.create_datagram_endpoint(lambda: _Responder(kinds, T, the_reply), local_addr=(lo, 0))
            port = tr.get_extra_info("sockname")[1]
        await asyncio.sleep(0)
        base = _fds()
        t0 = time.monotonic()
        try:
            val = await send_udp(Endpoint(lo, port), REQUEST, timeout=T, retries=retries)
            out = ("ok", val)
        except Exception as e:  # noqa
            out = ("exc", e)
        info["elapsed"] = time.monotonic() - t0
        for _ in range(5):
            await asyncio.sleep(0)
        info["leak"] = _fds() - base
        await asyncio.sleep(0.02)
        info["leak_later"] = _fds() - base
        info["seen"] = list(resp.seen) if resp else []
        if resp:
            resp.transport.close()
        return out

    restore_log = _debug_logging(debug)
    errors = []
    loop.set_exception_handler(lambda _l, ctx: errors.append("%s: %r" % (ctx.get("message"), ctx.get("exception"))))
    try:
        asyncio.set_event_loop(loop)
        out = loop.run_until_complete(go())
    finally:
        restore_log()
        loop.close()
        asyncio.set_event_loop(old if old is not None and not old.is_closed() else None)
    head = "loopback send_udp(%s, retries=%d, timeout=%r%s) responder=%s" % (lo, retries, T, ", DEBUG logging on" if debug else "",
                                                                             "closed port" if refused else kinds)

    def bad(msg):
        if len(msg) > 700:
            msg = msg[:500] + " ... " + msg[-150:]
        return Result("%s: %s" % (head, msg), nontrivial, classes)

    if errors:
        return bad("exception in an event-loop callback: %s" % errors[0])

    if info["leak"] > 0 or info["leak_later"] > 0:
        return bad("%d file descriptor(s) still open after the call has %s and control is back in the event loop" % (
            max(info["leak"], info["leak_later"]), "returned" if out[0] == "ok" else "raised %r" % (out[1],)))
    seen = info["seen"]
    if len(seen) > retries:
        return bad("the responder received %d datagrams for retries=%d" % (len(seen), retries))
    if any(d != REQUEST for d in seen):
        return bad("the responder received a datagram that differs from the request")
    if refused:
        if out[0] == "ok" or not isinstance(out[1], (OSError, Timeout)):
            return bad("outcome %r for a closed port" % (out,))
        return Result(None, nontrivial, classes + ["refused"])
    answered = [i for i, k in enumerate(kinds[:retries]) if k in ("reply", "dup", "empty")]
    late_ok = [i for i, k in enumerate(kinds[:retries]) if k == "late" and (i + 1.6) * T < retries * T
               and (not answered or i + 1.6 < answered[0])]
    if late_ok and out == ("ok", the_reply) and len(seen) <= retries:
        # one socket for all attempts: a reply that is late for its own attempt legitimately answers a later one
        return Result(None, nontrivial, classes + ["late_reply_accepted_on_shared_socket"])
    if answered:
        i = answered[0]
        want = b"" if kinds[i] == "empty" else the_reply
        if out != ("ok", want):
            return bad("outcome %r, expected the reply %r of attempt %d" % (out, want, i))
        if len(seen) != i + 1:
            return bad("the responder received %d datagrams, the reply came for attempt %d" % (len(seen), i))
        if info["elapsed"] < i * T - 0.005:
            return bad("returned after %.3f s, %d attempts of %.3f s had to time out first" % (info["elapsed"], i, T))
    else:
        if out[0] != "exc" or not isinstance(out[1], Timeout):
            return bad("outcome %r, expected Timeout after %d unanswered attempts" % (out, retries))
        if len(seen) != retries:
            return bad("the responder received %d datagrams before Timeout, retries=%d" % (len(seen), retries))
        if info["elapsed"] < retries * T - 0.005:
            return bad("Timeout after %.3f s, expected at least %d x %.3f s" % (info["elapsed"], retries, T))
    return Result(None, nontrivial, classes)


def run_case(case) -> Result:
    if case.get("tier") == "loopback":
        # real time is not a correctness signal: a failure must persist with four- and sixteen-fold timeouts (a loaded
        # machine delays the scripted responder) before it is reported
        res = run_loopback_case(case)
        for factor in (4, 16):
            if res.violation is None:
                break
            res = run_loopback_case(dict(case, timeout=case["timeout"] * factor))
        return res
    return run_virtual_case(case)


class _Seqs:
    def __init__(self, retries, timeouts, vias, k, m, env=((4, False),)):
        self.a = (retries, timeouts, vias, k, m, env)

    def __iter__(self):
        retries, timeouts, vias, k, m, env = self.a
        n = 0
        for family, debug in env:
            for via in vias:
                for T in timeouts:
                    for kinds in itertools.product(KINDS, repeat=retries):
                        n += 1
                        if n % m == k:
                            yield dict(tier="virtual", retries=retries, timeout=T, kinds=list(kinds), via=via, family=family,
                                       debug=debug)


class _Sizes:
    """reply sizes 1 .. the largest UDP payload, as first answer and after an unanswered attempt"""

    def __iter__(self):
        for n in (1, 2, 126, 127, 128, 255, 256, 484, 1472, 1473, 4096, 8192, 16384, 32768, 65000, 65505, 65506, MAX_UDP):
            for kinds in (["reply", "none"], ["none", "reply"], ["late", "dup"], ["icmp", "reply"]):
                yield dict(tier="virtual", retries=2, timeout=1, kinds=kinds, via="send_udp", reply_len=n)


LOOPBACK_PLANS = [
    (1, ["reply"]), (2, ["none", "reply"]), (3, ["none", "none", "reply"]), (2, ["none", "none"]), (1, ["none"]),
    (2, ["late", "reply"]), (2, ["dup", "none"]), (3, ["none", "dup", "none"]), (2, ["empty", "reply"]),
    (3, ["late", "late", "late"]), (2, ["none", "empty"]),
]


class _Loop:
    def __init__(self, plans, T, refused_n):
        self.a = (plans, T, refused_n)

    def __iter__(self):
        plans, T, refused_n = self.a
        for r, kinds in plans:
            yield dict(tier="loopback", retries=r, timeout=T, kinds=kinds)
        for family, debug in ((4, True), (6, False), (6, True)):
            for r, kinds in plans[:3]:
                yield dict(tier="loopback", retries=r, timeout=T, kinds=kinds, family=family, debug=debug)
        for family in (4, 6):
            for n in (1, 1473, MAX_UDP):
                yield dict(tier="loopback", retries=2, timeout=T, kinds=["none", "reply"], family=family, reply_len=n)
        for r in range(1, refused_n + 1):
            yield dict(tier="loopback", retries=r, timeout=T, kinds=["none"] * r, refused=True)


@st.composite
def virtual_cases(draw):
    r = draw(st.integers(1, 6))
    return dict(tier="virtual", retries=r, timeout=draw(st.sampled_from([0.5, 1, 2.5, 6, 0.05, 30, 7.25])),
                kinds=draw(st.lists(st.sampled_from(KINDS), min_size=r, max_size=r)),
                # (never a whole multiple of the timeout: a reply that arrives at the very instant a later attempt's deadline expires may
                # go either way -- the order of two callbacks of one loop iteration is not specified)
                fr=draw(st.lists(st.sampled_from([0.001, 0.25, 0.5, 0.9, 0.999, 1.001, 1.5, 2.75, 3.25]), min_size=r, max_size=r)),
                via=draw(st.sampled_from(["send_udp", "send_udp", "client"])),
                family=draw(st.sampled_from([4, 4, 6])), debug=draw(st.sampled_from([False, False, True])),
                reply_len=draw(st.sampled_from([0, 0, 1, 2, 127, 128, 484, 1472, 1473, 8192, 65506, MAX_UDP])))


@st.composite
def cancel_cases(draw):
    c = draw(virtual_cases())
    c["via"] = "send_udp"
    total = c["retries"] * c["timeout"]
    # never at the very instant of a scripted network event (the order of two callbacks of one loop iteration is not specified)
    c["cancel_at"] = total * draw(st.sampled_from([0.05, 0.2, 0.45, 0.55, 0.8, 0.95, 1.2])) + c["timeout"] * 0.00137
    return c


@st.composite
def loop_cases(draw):
    r = draw(st.integers(1, 3))
    return dict(tier="loopback", retries=r, timeout=draw(st.sampled_from([0.03, 0.05, 0.08])),
                kinds=draw(st.lists(st.sampled_from(["reply", "none", "none", "late", "dup", "empty"]), min_size=r, max_size=r)),
                refused=draw(st.integers(0, 5)) == 0,
                family=draw(st.sampled_from([4, 4, 6])), debug=draw(st.sampled_from([False, False, True])),
                reply_len=draw(st.sampled_from([0, 0, 1, 1472, 9000, MAX_UDP])))


def units(tier, seed):
    us = []
    maxr = 3 if tier == "quick" else 4
    for r in range(1, maxr + 1):
        shards = 1 if r < 3 else (4 if r == 3 else 12)
        for k in range(shards):
            us.append(Unit("virtual-r%d-%d" % (r, k), enumeration_unit,
                           cases=_Seqs(r, [0.5, 1, 2.5, 6], ["send_udp", "client"], k, shards),
                           label="virtual-r%d-%d" % (r, k), sample_every=199))
    # the environment of the call: address family of the endpoint x DEBUG logging of the transport on / off
    for r in (1, 2):
        us.append(Unit("virtual-env-r%d" % r, enumeration_unit,
                       cases=_Seqs(r, [1], ["send_udp", "client"], 0, 1, env=((4, True), (6, False), (6, True))),
                       label="virtual-env-r%d" % r, sample_every=97))
    us.append(Unit("virtual-sizes", enumeration_unit, cases=_Sizes(), label="virtual-sizes", sample_every=13))
    for sh in range(2 if tier == "quick" else 8):
        us.append(Unit("virtual-hyp-%d" % sh, hypothesis_unit, strategy=virtual_cases(), examples=300 if tier == "quick" else 5000,
                       seed=shard_seed(seed, 40 + sh), label="virtual-hyp-%d" % sh))
    for sh in range(1 if tier == "quick" else 4):
        us.append(Unit("cancel-hyp-%d" % sh, hypothesis_unit, strategy=cancel_cases(), examples=300 if tier == "quick" else 4000,
                       seed=shard_seed(seed, 60 + sh), label="cancel-hyp-%d" % sh))
    us.append(Unit("loopback-plans", enumeration_unit, cases=_Loop(LOOPBACK_PLANS, 0.05, 3), label="loopback-plans",
                   exhaustive=False, stop_after=3))
    n = 4 if tier == "quick" else 30
    for sh in range(2 if tier == "quick" else 4):
        us.append(Unit("loopback-hyp-%d" % sh, hypothesis_unit, strategy=loop_cases(), examples=n,
                       seed=shard_seed(seed, sh), label="loopback-hyp-%d" % sh, shrink=False))
    return us
