"""C16 -- table fetches: one row per index, every cell exactly once, both
variants agree.  DESIGN.md section 3, C16."""
from __future__ import annotations

from hypothesis import strategies as st

import vagent
import vber
import vstrategies as vs
import vworld
from vrunner import Result, Unit, hypothesis_unit, shard_seed

ID = "C16"
LEVEL = "exploration"
TECHNIQUE = ("property-based testing (Hypothesis): generated conceptual tables (sparse columns, multi-component indexes, "
             "directly adjacent neighbours, end of view) fetched through table / bulktable / PyWrapper.table / "
             "PyWrapper.bulktable against the reference agent under generated GETBULK truncation; absolute oracle = rows "
             "computed from the database, differential oracle = all variants agree")
RULE = ("case = table OID T x columns subset of 1..12 x 0..10 rows with index suffixes of 1..4 components (sub-identifiers up "
        "to 2^32-1) x per-cell presence x protocol incl. SNMPv1 (GETNEXT variants only) x neighbours {scalar before, sibling table right after, sibling whose arc textually "
        "extends T's arc, nothing after (end of view)} x bulk size 1..30 x truncation script x protocol {v2c, v3}; non-trivial "
        "= >= 2 rows and (sparse column or multi-component index or directly adjacent neighbour or end of view); distinct = "
        "SHA-1 of canonical JSON case")
ASSUMPTIONS = [
    "SNMPv1: the noSuchName that answers the request after the last cell ends the fetch normally (documented v1 end-of-tree signal); an EMPTY table behind the last object of a v1 view is outside the domain",
    "a conceptual table has one entry object T.1 and columns T.1.c with c >= 1 (SMIv2); table() takes the entry OID, bulktable() the table OID (as documented)",
    "row order is unspecified: rows are compared as a multiset",
    "only RFC 3416-conformant truncation of GETBULK responses (at least one binding)",
]
REQUIRED_CLASSES = {"sparse": 0.12, "multi_index": 0.12, "adjacent_after": 0.12, "end_of_view": 0.048, "textual_sibling": 0.048, "truncated": 0.09}   # (60 % of the fractions first required: room for seed-to-seed variation)


def expected_rows(db, table):
    entry = tuple(table) + (1,)
    rows = {}
    for o in sorted(db):
        if o[:len(entry)] == entry and len(o) >= len(entry) + 2:
            col, idx = o[len(entry)], o[len(entry) + 1:]
            rid = ".".join(str(x) for x in idx)
            rows.setdefault(rid, {"0": rid})[str(col)] = vber.typed_value(*db[o])
    return rows


def norm_rows(rows, pythonic):
    out = []
    for row in rows:
        d = {}
        for k, v in row.items():
            if type(k) is not str:
                return None, "row key %r is not a str" % (k,)
            if k == "0":
                d[k] = v
            elif pythonic:
                d[k] = ("py", v)
            else:
                d[k] = vworld.observe(v)
        out.append(d)
    return out, None


def run_case(case) -> Result:
    db = vworld.db_from_case(case["db"])
    table = tuple(case["table"])
    proto = case["proto"]
    bulk = case["bulk"]
    flags = set(case.get("flags", []))
    classes = set(flags) | {vworld.proto_label(proto)}
    want = expected_rows(db, table)
    nontrivial = len(want) >= 2 and bool(flags & {"sparse", "multi_index", "adjacent_after", "end_of_view", "textual_sibling"})
    cap = 6 * len(db) + 40
    O = vworld.OID
    S = vagent.S
    results = {}
    fired = False
    variants = ["table", "bulktable", "pytable", "pybulktable"]
    if proto["v"] == "1":
        variants = ["table", "pytable"]      # SNMPv1 has no GETBULK
        if not want and "end_of_view" in flags:
            # an empty table behind the last object of an SNMPv1 view: the very first GETNEXT is answered noSuchName.
            # Whether that is an empty table or NoSuchOID is not specified anywhere (the documented v1 end-of-tree
            # handling concerns continuation requests); outside the domain.
            return Result(None, False, sorted(classes | {"v1_empty_table_at_end_skipped"}))
    for variant in case.get("variants", variants):
        agent, client = vworld.make_world(proto, db, request_cap=cap,
                                          bulk_script=[tuple(p) for p in case.get("bulk_script", [])])
        py = vworld.PyWrapper(client)

        async def go():
            if variant == "table":
                return await client.table(O(table + (1,)))
            if variant == "bulktable":
                return await client.bulktable(O(table), bulk_size=bulk)
            if variant == "pytable":
                return await py.table(S(table + (1,)))
            return await py.bulktable(S(table), bulk_size=bulk)

        try:
            rows = vworld.run(go())
        except vagent.AgentInternalError as e:
            return Result("client sent something the reference agent cannot handle: %s" % e, nontrivial, sorted(classes))
        except vagent.CapExceeded:
            return Result("%s sent more than %d requests for a database of %d instances" % (variant, cap, len(db)),
                          nontrivial, sorted(classes))
        except Exception as e:  # noqa
            if vworld.f10b_excusable(agent, e):
                return Result("AuthenticationError on an authentic response with a 127-octet TLV", nontrivial,
                              sorted(classes), known="reencoded_len_127")
            return Result("%s %s(%s) raised %s: %s" % (vworld.proto_label(proto), variant, S(table), type(e).__name__, e),
                          nontrivial, sorted(classes))
        if agent.bulk_fired:
            fired = True
        got, err = norm_rows(rows, variant.startswith("py"))
        if err:
            return Result("%s: %s" % (variant, err), nontrivial, sorted(classes))
        results[variant] = got
    if fired:
        classes.add("truncated")
    cls = sorted(classes)
    head = "%s table %s bulk=%d" % (vworld.proto_label(proto), S(table), bulk)
    for variant, got in results.items():
        pyv = variant.startswith("py")
        exp = []
        for rid, row in want.items():
            d = {}
            for k, v in row.items():
                d[k] = v if k == "0" else (("py", vber.pythonized(*_tc(db, table, k, rid))) if pyv else v)
            exp.append(d)
        key = lambda r: r.get("0", "")
        notstr = [r for r in got if type(r.get("0")) is not str]
        if notstr:
            return Result("%s: %s returned a row whose key '0' is %r, not the dotted index string" % (head, variant, notstr[0].get("0")),
                          nontrivial, cls)
        ids = [r.get("0") for r in got]
        if len(set(ids)) != len(ids):
            return Result("%s: %s returned two rows for index %r" % (head, variant, [i for i in ids if ids.count(i) > 1][0]),
                          nontrivial, cls)
        if sorted(got, key=key) != sorted(exp, key=key) or any(
                type(a.get(k, (0, 0))[1]) is not type(b[k][1]) for a, b in zip(sorted(got, key=key), sorted(exp, key=key))
                for k in b if k != "0"):
            g, e = sorted(got, key=key), sorted(exp, key=key)
            diff = next(((a, b) for a, b in zip(g, e) if a != b), (g[len(e):len(e) + 1] or None, e[len(g):len(g) + 1] or None))
            return Result("%s: %s returned %d rows, the database holds %d; first difference: got %r, expected %r" % (
                head, variant, len(got), len(exp), diff[0], diff[1]), nontrivial, cls)
    return Result(None, nontrivial, cls)


def _tc(db, table, col, rid):
    o = tuple(table) + (1, int(col)) + tuple(int(x) for x in rid.split("."))
    return db[o]


IDX_ARC = st.one_of(st.integers(0, 5), st.integers(0, 5), st.sampled_from([0, 1, 127, 128, 255, 16383, 16384, 2 ** 32 - 1]))


@st.composite
def cases(draw, v3_weight=1):
    pre = draw(st.sampled_from([p for p in vs.PREFIXES if len(p) >= 2]))
    last = draw(st.sampled_from([1, 2, 2, 3, 9, 12, 127]))
    table = pre + (last,)
    cols = sorted(draw(st.sets(st.integers(1, 12), min_size=1, max_size=5)))
    ncomp = draw(st.sampled_from([1, 1, 2, 3, 4]))
    nrows = draw(st.sampled_from([0, 1, 2, 3, 4, 6, 10]))
    idxs = draw(st.lists(st.lists(IDX_ARC, min_size=ncomp, max_size=ncomp), min_size=nrows, max_size=nrows, unique_by=tuple))
    flags = set()
    if ncomp > 1 and len(idxs) >= 1:
        flags.add("multi_index")
    sparse = draw(st.booleans())
    db = {}
    for c in cols:
        tag = draw(st.sampled_from([vber.T_INT, vber.T_OCTETS, vber.T_OID, vber.T_IPADDR, vber.T_COUNTER, vber.T_GAUGE,
                                    vber.T_TICKS, vber.T_COUNTER64]))
        for idx in idxs:
            if sparse and draw(st.integers(0, 3)) == 0:
                flags.add("sparse")
                continue
            db[table + (1, c) + tuple(idx)] = draw(vs.value(tags=[tag]))
    neigh = draw(st.sets(st.sampled_from(["before", "after", "after", "textual", "textual", "far"]), max_size=3))
    eov = draw(st.integers(0, 4)) == 0
    if "before" in neigh and last > 0:
        db[pre + (last - 1, 0)] = draw(vs.value())
        db[pre + (last - 1, 1, 1, 7)] = draw(vs.value())
    if not eov:
        if "after" in neigh:
            # sibling table directly after, same shape
            for idx in idxs[:3] or [[1]]:
                db[pre + (last + 1, 1, cols[0]) + tuple(idx)] = draw(vs.value())
            flags.add("adjacent_after")
        if "textual" in neigh:
            # a sibling whose arc textually extends the table's arc: T = x.2, sibling x.20 / x.21 / x.2xx
            sib = int(str(last) + draw(st.sampled_from(["0", "1", "9", "00"])))
            for idx in idxs[:3] or [[1]]:
                db[pre + (sib, 1, cols[0]) + tuple(idx)] = draw(vs.value())
            db[pre + (sib, 1, cols[-1], 7)] = draw(vs.value())
            flags.add("textual_sibling")
        if "far" in neigh or not (flags & {"adjacent_after", "textual_sibling"}):
            db[(2, 39, 4000000000, 0)] = draw(vs.value())
    else:
        flags.add("end_of_view")
    bulk = draw(st.sampled_from([1, 2, 3, 4, 5, 7, 10, 20, 30, max(1, len(idxs)), len(idxs) + 1]))
    script = draw(st.lists(st.one_of(st.just(["full"]), st.tuples(st.just("rows"), st.integers(1, 3)).map(list),
                                     st.tuples(st.just("cut"), st.integers(1, 9)).map(list),
                                     st.tuples(st.just("frac"), st.sampled_from([100, 350, 500, 900])).map(list)),
                           max_size=6))
    proto = draw(vs.proto(v3_weight=v3_weight, v1=True))
    if proto["v"] == "1":
        # an SNMPv1 agent holds no Counter64
        db = {o: ([vber.T_GAUGE, v[1][-8:] if len(v[1]) <= 8 else "00" + v[1][-6:]] if v[0] == vber.T_COUNTER64 else v) for o, v in db.items()}
        db = {o: ([v[0], "00" + v[1][-6:]] if v[0] == vber.T_GAUGE and len(v[1]) >= 8 and int(v[1][:2], 16) >= 0x80 else v) for o, v in db.items()}
    return dict(db=[[list(o), v[0], v[1]] for o, v in sorted(db.items())], table=list(table), bulk=bulk,
                bulk_script=script, proto=proto, flags=sorted(flags))


def units(tier, seed):
    n = 100 if tier == "quick" else 4000
    return [Unit("hyp-%d" % sh, hypothesis_unit, strategy=cases(v3_weight=1 if tier == "quick" else 2), examples=n,
                 seed=shard_seed(seed, sh), label="hyp-%d" % sh) for sh in range(16)]
