"""C04 -- GET / GETNEXT / SET / GETBULK results are exactly the agent's
answers, in order.  DESIGN.md section 3, C04."""
from __future__ import annotations

from hypothesis import strategies as st

import vagent
import vber
import vstrategies as vs
import vworld
from puresnmp.exc import NoSuchOID, SnmpError
from vrunner import Result, Unit, hypothesis_unit, shard_seed

ID = "C04"
LEVEL = "exploration"
TECHNIQUE = ("property-based testing (Hypothesis): generated databases, OID lists (duplicates, absent objects, "
             "end of view), SET values of every type and GETBULK splits; oracle = the reference agent's own "
             "answer / database state, plus binding-count perturbations that must be refused")
RULE = ("case = database x operation {get, multiget, getnext, multigetnext, set, multiset, bulkget} x OID list "
        "1..12 (duplicates, absent, before-first, last) or SET mapping 1..6 or (non-repeaters 0..3, repeaters "
        "0..3, max-repetitions 0..6) x protocol {v1, v2c, v3 x 3 levels} x count perturbation {none, +fresh, "
        "+duplicate, -last}; non-trivial = list length >= 2 and one of {duplicate OID, absent object, end-of-view "
        "object, non-Integer/OctetString value, perturbed count}; distinct = SHA-1 of canonical JSON case")
ASSUMPTIONS = [
    "v1 semantics per RFC 1157 (noSuchName + error-index, no exception markers, no GETBULK, no Counter64)",
    "dict-shaped results are compared as dicts (merging equal OIDs is not inventing)",
    "a GETBULK response shorter than N+M*R is conformant and must be accepted; only len > N+M*R must be refused",
    "any SnmpError subclass counts as 'refused with SnmpError'",
]
_REQUIRED_BASE = {"perturbed": 0.09, "absent": 0.06, "end_of_view": 0.03, "v1": 0.03, "v3": 0.03, "op=bulkget": 0.024, "op=multiset": 0.03}   # (60 % of the fractions first required: room for seed-to-seed variation)
# generator health of the newer case families (quick tier: the thorough tier dilutes them with enumerated units)
_REQUIRED_QUICK = {"bulk_response_cut_in_first_row": 0.003}   # (60 % of the fractions first required: room for seed-to-seed variation)


def REQUIRED_CLASSES(tier):
    return dict(_REQUIRED_BASE, **(_REQUIRED_QUICK if tier == "quick" else {}))


def _exp_value(tag, content):
    return vber.typed_value(tag, content)


def _same(obs, exp):
    return obs == exp and type(obs[1]) is type(exp[1])


def _perturb(kind, vbs, db, pdu=None):
    vbs = list(vbs)
    if kind == "short_row":
        # a conformant SHORT GETBULK response (RFC 3416 4.2.3: the agent may send fewer bindings when its message would
        # grow too large): the non-repeaters and only the beginning of the first row of repetitions
        if pdu is not None and pdu["tag"] == vber.PDU_GETBULK:
            n = max(0, min(pdu["f1"], len(pdu["vbs"])))
            r = len(pdu["vbs"]) - n
            if r >= 2 and len(vbs) > n + 1:
                vbs = vbs[:n + 1 + (len(vbs) % (r - 1))]
        return vbs
    if kind == "add_fresh":
        vbs.append(((1, 3, 6, 1, 4, 1, 99999, 1, 0), vber.T_INT, b"\x2a"))
    elif kind == "add_dup" and vbs:
        vbs.append(vbs[0])
    elif kind == "add_dup":
        vbs.append(((1, 3, 6, 1, 4, 1, 99999, 1, 0), vber.T_INT, b"\x2a"))
    elif kind == "drop_last" and vbs:
        vbs.pop()
    return vbs


def run_case(case) -> Result:
    db = vworld.db_from_case(case["db"])
    proto = case["proto"]
    op = case["op"]
    perturb = case.get("perturb", "none")
    oids = [tuple(o) for o in case.get("oids", [])]
    version = {"1": 0, "2c": 1, "3": 3}[proto["v"]]
    classes = {"op=" + op, vworld.proto_label(proto)}
    if proto["v"] == "3":
        classes.add("v3")
    if proto["v"] == "1":
        classes.add("v1")
    if proto.get("via"):
        classes.add("reconfigured_from_" + proto["via"]["v"])
    state = {}

    def hook(agent, req):
        pdu = req["pdu"]
        es, ei, vbs = agent.answer(version, pdu)
        state["plain"] = (es, ei, list(vbs))
        if es == 0 and perturb != "none":
            before = len(vbs)
            vbs = _perturb(perturb, vbs, db, pdu)
            if perturb != "short_row":
                state["perturbed"] = True
            elif len(vbs) != before:
                state["short_row"] = True
        state["final"] = (es, ei, list(vbs))
        if version == 3:
            return agent.v3_response(req, agent.users[req["user"]], es, ei, vbs)
        return agent.community_response(version, pdu["rid"], es, ei, vbs)

    agent, client = vworld.make_world(proto, db, request_cap=8)
    agent.respond_hook = hook
    O = vworld.OID
    setmap = [(tuple(o), t, bytes.fromhex(h)) for o, t, h in case.get("set", [])]

    async def go():
        if op == "get":
            return await client.get(O(oids[0]))
        if op == "multiget":
            return await client.multiget([O(o) for o in oids])
        if op == "getnext":
            return await client.getnext(O(oids[0]))
        if op == "multigetnext":
            return await client.multigetnext([O(o) for o in oids])
        if op == "set":
            o, t, c = setmap[0]
            return await client.set(O(o), vworld.make_value(t, c))
        if op == "multiset":
            return await client.multiset({O(o): vworld.make_value(t, c) for o, t, c in setmap})
        if op == "bulkget":
            return await client.bulkget([O(o) for o in case["scalars"]],
                                        [O(o) for o in case["repeaters"]],
                                        max_list_size=case["maxrep"])
        raise ValueError(op)

    # classification
    keys = sorted(db)
    req_oids = oids or [o for o, _, _ in setmap] or [tuple(o) for o in case.get("scalars", []) + case.get("repeaters", [])]
    if len(set(req_oids)) < len(req_oids):
        classes.add("duplicate")
    if op in ("get", "multiget") and any(o not in db for o in req_oids):
        classes.add("absent")
    if op in ("getnext", "multigetnext", "bulkget") and any(not keys or o >= keys[-1] for o in req_oids):
        classes.add("end_of_view")
    if op in ("set", "multiset") and any(t not in (vber.T_INT, vber.T_OCTETS) for _, t, _ in setmap):
        classes.add("typed_value")
    if perturb == "short_row":
        classes.add("bulk_response_cut_in_first_row")
    elif perturb != "none":
        classes.add("perturbed")
    nontrivial = len(req_oids) >= 2 and bool(classes & {"duplicate", "absent", "end_of_view", "typed_value", "perturbed"})

    exc = None
    res = None
    try:
        res = vworld.run(go())
    except vagent.AgentInternalError as e:
        return Result("client sent something the reference agent cannot handle: %s" % e, nontrivial, sorted(classes))
    except vagent.CapExceeded:
        return Result("%s sent more than 8 requests" % op, nontrivial, sorted(classes))
    except Exception as e:  # noqa
        exc = e
    cls = sorted(classes)
    if exc is not None and vworld.f10b_excusable(agent, exc):
        return Result("AuthenticationError on an authentic response with a 127-octet TLV", nontrivial, cls,
                      known="reencoded_len_127")
    if "final" not in state:
        return Result("%s never sent a request the agent could answer (%r)" % (op, exc), nontrivial, cls)
    es, ei, final = state["final"]
    _, _, plain = state["plain"]
    pert = state.get("perturbed", False)

    def bad(msg):
        return Result("%s %s: %s" % (vworld.proto_label(proto), op, msg), nontrivial, cls)

    def exc_desc():
        return "%s: %s" % (type(exc).__name__, exc)

    # -- v1 error responses -------------------------------------------------
    if es != 0:
        if not isinstance(exc, NoSuchOID):
            return bad("agent answered noSuchName(index %d) but the call gave %s" % (
                ei, exc_desc() if exc else repr(res)))
        want = final[ei - 1][0]
        if vworld.oid_tuple(exc.offending_oid) != want:
            return bad("NoSuchOID names %s, the agent pointed at %s" % (exc.offending_oid, vagent.S(want)))
        return Result(None, nontrivial, cls)

    # -- perturbed counts ----------------------------------------------------
    if pert and op != "bulkget":
        if len(final) != len(plain):
            if not isinstance(exc, SnmpError):
                return bad("response with %d bindings for a request of %d was not refused with SnmpError (got %s)" % (
                    len(final), len(plain), exc_desc() if exc else repr(res)))
            return Result(None, nontrivial, cls)
    if op == "bulkget":
        n = min(len(case["scalars"]), len(case["scalars"]) + len(case["repeaters"]))
        limit = n + max(0, case["maxrep"]) * len(case["repeaters"])
        if len(final) > limit:
            if not isinstance(exc, SnmpError):
                return bad("GETBULK response with %d bindings (maximum %d) was not refused with SnmpError (got %s)" % (
                    len(final), limit, exc_desc() if exc else repr(res)))
            return Result(None, nontrivial, cls)

    # -- regular outcomes -----------------------------------------------------
    if op == "multiget":
        if exc is not None:
            return bad("raised %s" % exc_desc())
        got = [vworld.observe(v) for v in res]
        want = [_exp_value(t, c) for _, t, c in final]
        if len(got) != len(want) or not all(_same(g, w) for g, w in zip(got, want)):
            return bad("returned %r, the agent answered %r" % (got, want))
    elif op == "get":
        o, t, c = final[0]
        if t in (vber.T_NOSUCHOBJECT, vber.T_NOSUCHINSTANCE):
            if not isinstance(exc, NoSuchOID):
                return bad("missing object must raise NoSuchOID, got %s" % (exc_desc() if exc else repr(res)))
        else:
            if exc is not None:
                return bad("raised %s" % exc_desc())
            if not _same(vworld.observe(res), _exp_value(t, c)):
                return bad("returned %r, the agent holds %r" % (vworld.observe(res), _exp_value(t, c)))
    elif op == "multigetnext":
        if exc is not None:
            return bad("raised %s" % exc_desc())
        want = [(o,) + _exp_value(t, c) for o, t, c in final if t != vber.T_ENDOFMIBVIEW]
        got = [vworld.observe_vb(vb) for vb in res]
        if len(got) != len(want) or not all(g[0] == w[0] and _same(g[1:], w[1:]) for g, w in zip(got, want)):
            return bad("returned %r, the agent's successors are %r" % (got, want))
    elif op == "getnext":
        o, t, c = final[0]
        if t == vber.T_ENDOFMIBVIEW:
            if not isinstance(exc, NoSuchOID):
                return bad("get-next at the end of the view must raise NoSuchOID, got %s" % (exc_desc() if exc else repr(res)))
        else:
            if exc is not None:
                return bad("raised %s" % exc_desc())
            g = vworld.observe_vb(res)
            if g[0] != o or not _same(g[1:], _exp_value(t, c)):
                return bad("returned %r, the successor is %s=%r" % (g, vagent.S(o), _exp_value(t, c)))
    elif op in ("set", "multiset"):
        if exc is not None:
            return bad("raised %s" % exc_desc())
        # the agent's database now holds exactly the typed values supplied
        intended = {}
        for o, t, c in setmap:
            intended[o] = _exp_value(t, c)
        for o, want in intended.items():
            if o not in agent.db:
                return bad("the agent never received a value for %s" % vagent.S(o))
            t, c = agent.db[o]
            try:
                have = _exp_value(t, c)
            except vber.BerError as e:
                return bad("the value delivered for %s is not a well-formed SNMP value: %s" % (vagent.S(o), e))
            if not _same(have, want):
                return bad("the agent received %s = %r, the caller supplied %r" % (vagent.S(o), have, want))
        extra = set(agent.db) - set(db) - set(intended)
        if extra:
            return bad("the SET created %s which the caller did not supply" % vagent.S(sorted(extra)[0]))
        confirmed = {}
        for o, t, c in final:
            confirmed[o] = _exp_value(t, c)
        if op == "set":
            if not _same(vworld.observe(res), confirmed[setmap[0][0]]):
                return bad("returned %r, the agent confirmed %r" % (vworld.observe(res), confirmed[setmap[0][0]]))
        else:
            got = {vworld.oid_tuple(k): vworld.observe(v) for k, v in res.items()}
            if set(got) != set(confirmed) or not all(_same(got[k], confirmed[k]) for k in got):
                return bad("returned %r, the agent confirmed %r" % (got, confirmed))
    elif op == "bulkget":
        if exc is not None:
            return bad("raised %s" % exc_desc())
        n = len(case["scalars"])
        want_sc = {}
        for o, t, c in final[:n]:
            want_sc[o] = _exp_value(t, c)
        want_li = []
        for o, t, c in final[n:]:
            if t == vber.T_ENDOFMIBVIEW:
                continue
            want_li = [w for w in want_li if w[0] != o] if False else want_li
            want_li.append((o,) + _exp_value(t, c))
        # as ordered dict: first position of each OID, last value
        order = []
        vals = {}
        for w in want_li:
            if w[0] not in vals:
                order.append(w[0])
            vals[w[0]] = w[1:]
        got_sc = {vworld.oid_tuple(k): vworld.observe(v) for k, v in res.scalars.items()}
        got_li = [(vworld.oid_tuple(k),) + vworld.observe(v) for k, v in res.listing.items()]
        if set(got_sc) != set(want_sc) or not all(_same(got_sc[k], want_sc[k]) for k in got_sc):
            return bad("scalars %r, the agent's non-repeater bindings are %r" % (got_sc, want_sc))
        if [g[0] for g in got_li] != order or not all(_same(g[1:], vals[g[0]]) for g in got_li):
            return bad("listing %r, the agent's repeater bindings are %r" % (got_li, want_li))
    return Result(None, nontrivial, cls)


@st.composite
def cases(draw, v3_weight=1):
    w = draw(vs.walk_world())
    proto = draw(vs.proto(v3_weight=v3_weight, v1=True))
    if draw(st.integers(0, 9)) == 0:
        # history: the client was created for another protocol / community and
        # re-configured (Client.configure) before the operation
        proto = dict(proto, via=draw(st.sampled_from([vworld.V1_PROTO, vworld.V2C_PROTO, vworld.V3_PROTOS[0],
                                                      {"v": "2c", "community": "other"}, {"v": "1", "community": "other"}])))
    if proto["v"] == "1":
        # v1 agents hold no Counter64 (RFC 3584)
        w["db"] = [[o, (vber.T_GAUGE if t == vber.T_COUNTER64 else t),
                    (h[-8:] if t == vber.T_COUNTER64 and len(h) > 8 else h) if t == vber.T_COUNTER64 else h]
                   for o, t, h in w["db"]]
        w["db"] = [[o, t, ("00" + h[-6:] if t == vber.T_GAUGE and len(h) >= 8 and int(h[:2], 16) >= 0x80 else h)]
                   for o, t, h in w["db"]]
    keys = [tuple(o) for o, _, _ in w["db"]]
    pool = list(keys)
    for k in keys[:6]:
        pool.append(k[:-1] + (k[-1] + 1,))       # sibling, maybe absent
        pool.append(k + (0,))                     # below an instance, absent
        pool.append(k[:-1])                       # the object itself
    pool += [(1, 3), (0, 0), (2, 39, 2 ** 32 - 1, 2 ** 32 - 1), (1, 3, 6, 1, 2, 1, 1, 1, 0)]
    if keys:
        pool += [keys[-1], keys[-1], keys[0]]
    ops = ["get", "multiget", "multiget", "getnext", "multigetnext", "multigetnext", "set", "multiset", "multiset"]
    if proto["v"] != "1":
        ops += ["bulkget", "bulkget"]
    op = draw(st.sampled_from(ops))
    oid = st.sampled_from(pool).map(list)
    case = dict(db=w["db"], proto=proto, op=op,
                perturb=draw(st.sampled_from(["none", "none", "none", "add_fresh", "add_dup", "drop_last"])))
    if op in ("get", "getnext"):
        case["oids"] = [draw(oid)]
    elif op in ("multiget", "multigetnext"):
        # mostly a handful, sometimes hundreds of OIDs (with repetitions) in one request
        case["oids"] = draw(st.lists(oid, min_size=1, max_size=12)) if draw(st.integers(0, 9)) else \
            draw(st.lists(oid, min_size=130, max_size=300))
    elif op in ("set", "multiset"):
        n = 1 if op == "set" else draw(st.integers(1, min(6, len(set(pool)))))
        targets = draw(st.lists(oid, min_size=n, max_size=n, unique_by=tuple))
        tags = vs.V1_TAGS if proto["v"] == "1" else None
        case["set"] = [[t] + draw(vs.value(tags=tags, allow_null=False)) for t in targets]
        if draw(st.integers(0, 3)) == 0:
            # a TimeTicks value the caller builds from a timedelta (vworld.make_value does so for odd tick counts): tick counts
            # whose hundredths are not exact in binary floating point
            k = draw(st.sampled_from([29, 57, 113, 115, 229, 1019, 2 ** 31 + 1, 2 ** 32 - 1]))
            case["set"][0] = [case["set"][0][0], vber.T_TICKS, vber.int_content(k).hex()]
    else:
        case["scalars"] = draw(st.lists(oid, min_size=0, max_size=3))
        case["repeaters"] = draw(st.lists(oid, min_size=0 if case["scalars"] else 1, max_size=3))
        case["maxrep"] = draw(st.one_of(st.integers(0, 6), st.integers(0, 6), st.sampled_from([25, 127, 128, 1000])))
        if len(case["repeaters"]) >= 2 and draw(st.integers(0, 2)) == 0:
            case["perturb"] = "short_row"
            case["maxrep"] = max(1, case["maxrep"])
    return case


def units(tier, seed):
    n = 200 if tier == "quick" else 6000
    return [Unit("hyp-%d" % sh, hypothesis_unit, strategy=cases(v3_weight=1 if tier == "quick" else 2),
                 examples=n, seed=shard_seed(seed, sh), label="hyp-%d" % sh) for sh in range(16)]
