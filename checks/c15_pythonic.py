"""C15 -- the pythonic wrapper returns only built-in Python types, equal to
the element-wise pythonisation of the raw results.  DESIGN.md section 3, C15."""
from __future__ import annotations

import ipaddress
from datetime import timedelta

from hypothesis import strategies as st

import vagent
import vber
import vstrategies as vs
import vworld
from vrunner import Result, Unit, hypothesis_unit, shard_seed

ID = "C15"
LEVEL = "exploration"
TECHNIQUE = ("differential property-based testing (Hypothesis): each wrapper operation and the raw operation run against "
             "identical fresh agents; oracle = the harness's own element-wise pythonisation of the raw result + a deep "
             "type walk (leaves and dictionary keys) over the wrapper's result")
RULE = ("case = database with every value type x wrapper operation {get, getnext, multiget, set, multiset, walk, multiwalk, "
        "bulkwalk, bulkget, table, bulktable} x protocol {v1, v2c, v3} x SET responses confirming other values than sent x table columns with mixed cell types; non-trivial = the result contains >= 2 distinct "
        "value types or a dict; distinct = SHA-1 of canonical JSON case")
ASSUMPTIONS = [
    "table()/bulktable() are only called on conceptual tables (columns numbered from 1; column arc 0 is reserved by SMIv2)",
    "pythonisation table (RFC 2578 meaning, written in the check): Integer/Counter/Gauge/Counter64 -> int, OctetString/Opaque "
    "-> bytes, ObjectIdentifier -> dotted str, IpAddress -> IPv4Address, TimeTicks -> timedelta(10 ms x v), Null and the "
    "exception markers -> None",
    "containers may be list, tuple (incl. the documented NamedTuple PyVarBind), dict (incl. OrderedDict) and the documented BulkResult record",
    "an exception raised by the raw operation must be raised (same class) by the wrapper operation",
]
REQUIRED_CLASSES = {"set_confirmed_differently": 0.03, "has_dict": 0.12, "op=bulkget": 0.018, "op=table": 0.018, "multi_type": 0.09}   # (60 % of the fractions first required: room for seed-to-seed variation)

ALLOWED_LEAF = (str, int, bytes, timedelta, ipaddress.IPv4Address, type(None))
OPS = ["get", "getnext", "multiget", "set", "multiset", "walk", "multiwalk", "bulkwalk", "bulkget", "table", "bulktable"]


def pythonise(obs):
    """harness's own conversion of (type name, raw value) -> python value"""
    name, v = obs
    if name in ("Integer", "Counter", "Gauge", "Counter64"):
        return int(v)
    if name in ("OctetString", "Opaque"):
        return bytes(v)
    if name == "ObjectIdentifier":
        return ".".join(str(x) for x in v)
    if name == "IpAddress":
        return ipaddress.IPv4Address(v)
    if name == "TimeTicks":
        return timedelta(milliseconds=10 * v)
    if name in ("Null", "NoSuchObject", "NoSuchInstance", "EndOfMibView"):
        return None
    raise ValueError("unknown raw type %s" % name)


def type_walk(x, path="result"):
    """-> None or a message naming the first non-built-in leaf / key"""
    from puresnmp.util import BulkResult

    if isinstance(x, BulkResult):
        return type_walk(x.scalars, path + ".scalars") or type_walk(x.listing, path + ".listing")
    if isinstance(x, dict):
        for k, v in x.items():
            if type(k) is not str:
                return "%s has a key of type %s (%r)" % (path, type(k).__name__, k)
            m = type_walk(v, "%s[%r]" % (path, k))
            if m:
                return m
        return None
    if isinstance(x, (list, tuple)):
        for i, v in enumerate(x):
            m = type_walk(v, "%s[%d]" % (path, i))
            if m:
                return m
        return None
    if type(x) not in ALLOWED_LEAF:
        return "%s is a %s (%r), not a built-in Python type" % (path, type(x).__name__, x)
    return None


def S(o):
    return ".".join(str(x) for x in o)


def run_case(case) -> Result:
    db = vworld.db_from_case(case["db"])
    proto = case["proto"]
    op = case["op"]
    oids = [tuple(o) for o in case.get("oids", [])]
    setmap = [(tuple(o), t, bytes.fromhex(h)) for o, t, h in case.get("set", [])]
    bulk = case.get("bulk", 3)
    classes = {"op=" + op, vworld.proto_label(proto)}
    O = vworld.OID
    cap = 4 * len(db) + 30

    async def collect(agen):
        return [x async for x in agen]

    async def raw(client):
        if op == "get":
            return vworld.observe(await client.get(O(oids[0])))
        if op == "getnext":
            return vworld.observe_vb(await client.getnext(O(oids[0])))
        if op == "multiget":
            return [vworld.observe(v) for v in await client.multiget([O(o) for o in oids])]
        if op == "set":
            o, t, c = setmap[0]
            return vworld.observe(await client.set(O(o), vworld.make_value(t, c)))
        if op == "multiset":
            r = await client.multiset({O(o): vworld.make_value(t, c) for o, t, c in setmap})
            return [(vworld.oid_tuple(k), vworld.observe(v)) for k, v in r.items()]
        if op == "walk":
            return [vworld.observe_vb(vb) for vb in await collect(client.walk(O(oids[0])))]
        if op == "multiwalk":
            return [vworld.observe_vb(vb) for vb in await collect(client.multiwalk([O(o) for o in oids]))]
        if op == "bulkwalk":
            return [vworld.observe_vb(vb) for vb in await collect(client.bulkwalk([O(o) for o in oids], bulk_size=bulk))]
        if op == "bulkget":
            r = await client.bulkget([O(o) for o in case["scalars"]], [O(o) for o in case["repeaters"]], max_list_size=case["maxrep"])
            return ([(vworld.oid_tuple(k), vworld.observe(v)) for k, v in r.scalars.items()],
                    [(vworld.oid_tuple(k), vworld.observe(v)) for k, v in r.listing.items()])
        if op == "table":
            rows = await client.table(O(oids[0]))
            return [{k: (v if k == "0" else vworld.observe(v)) for k, v in row.items()} for row in rows]
        if op == "bulktable":
            rows = await client.bulktable(O(oids[0]), bulk_size=bulk)
            return [{k: (v if k == "0" else vworld.observe(v)) for k, v in row.items()} for row in rows]
        raise ValueError(op)

    async def wrapped(client):
        py = vworld.PyWrapper(client)
        if op == "get":
            return await py.get(S(oids[0]))
        if op == "getnext":
            return await py.getnext(S(oids[0]))
        if op == "multiget":
            return await py.multiget([S(o) for o in oids])
        if op == "set":
            o, t, c = setmap[0]
            return await py.set(S(o), vworld.make_value(t, c))
        if op == "multiset":
            return await py.multiset({S(o): vworld.make_value(t, c) for o, t, c in setmap})
        if op == "walk":
            return await collect(py.walk(S(oids[0])))
        if op == "multiwalk":
            return await collect(py.multiwalk([S(o) for o in oids]))
        if op == "bulkwalk":
            return await collect(py.bulkwalk([S(o) for o in oids], bulk_size=bulk))
        if op == "bulkget":
            return await py.bulkget([S(o) for o in case["scalars"]], [S(o) for o in case["repeaters"]], max_list_size=case["maxrep"])
        if op == "table":
            return await py.table(S(oids[0]))
        if op == "bulktable":
            return await py.bulktable(S(oids[0]), bulk_size=bulk)
        raise ValueError(op)

    confirm = [(t, bytes.fromhex(h)) for t, h in case.get("confirm", [])]
    version = {"1": 0, "2c": 1, "3": 3}[proto["v"]]

    def hook(agent, req):
        # the agent confirms a SET with the values it actually stored (normalised), not the ones sent
        pdu = req["pdu"]
        if pdu["tag"] != vber.PDU_SET or not confirm:
            return None
        es, ei, vbs = agent.answer(version, pdu)
        vbs = [(o,) + (confirm[i] if i < len(confirm) else (t, c)) for i, (o, t, c) in enumerate(vbs)]
        if version == 3:
            return agent.v3_response(req, agent.users[req["user"]], es, ei, vbs)
        return agent.community_response(version, pdu["rid"], es, ei, vbs)

    if confirm:
        classes.add("set_confirmed_differently")
    outs = []
    for fn in (raw, wrapped):
        agent, client = vworld.make_world(proto, db, request_cap=cap)
        agent.respond_hook = hook
        try:
            outs.append(("ok", vworld.run(fn(client))))
        except vagent.AgentInternalError as e:
            return Result("client sent something the reference agent cannot handle: %s" % e, False, sorted(classes))
        except vagent.CapExceeded:
            return Result("%s sent more than %d requests" % (op, cap), False, sorted(classes))
        except Exception as e:  # noqa
            if vworld.f10b_excusable(agent, e):
                return Result("AuthenticationError on an authentic response with a 127-octet TLV", False, sorted(classes),
                              known="reencoded_len_127")
            outs.append(("exc", e))
    (rk, rv), (wk, wv) = outs
    head = "%s PyWrapper.%s" % (vworld.proto_label(proto), op)

    def _names(x):
        if isinstance(x, tuple) and len(x) >= 2 and isinstance(x[-2], str) and not isinstance(x[-1], (list, dict, tuple)):
            yield x[-2]
        elif isinstance(x, (list, tuple)):
            for i in x:
                yield from _names(i)
        elif isinstance(x, dict):
            for v in x.values():
                yield from _names(v)

    if rk == "ok":
        known = {"Integer", "Counter", "Gauge", "Counter64", "OctetString", "Opaque", "ObjectIdentifier", "IpAddress",
                 "TimeTicks", "Null", "NoSuchObject", "NoSuchInstance", "EndOfMibView"}
        odd = [n for n in _names(rv) if n[:1].isupper() and n not in known and not n.replace(".", "").isdigit()]
        if odd:
            return Result("%s: the raw client returned a value of the undocumented type %s, which has no defined pythonisation" % (
                head, odd[0]), False, sorted(classes))
    if rk == "exc" or wk == "exc":
        classes.add("raises")
        cls = sorted(classes)
        if rk != wk or type(rv) is not type(wv):
            return Result("%s: raw gave %r, the wrapper gave %r" % (head, rv, wv), False, cls)
        return Result(None, False, cls)

    # expected structure from the raw result
    from puresnmp.util import BulkResult
    from puresnmp.varbind import PyVarBind

    if op == "get" or op == "set":
        want = pythonise(rv)
        flat = [rv]
    elif op == "getnext":
        want = (S(rv[0]), pythonise(rv[1:]))
        flat = [rv[1:]]
    elif op == "multiget":
        want = [pythonise(v) for v in rv]
        flat = rv
    elif op == "multiset":
        want = {S(k): pythonise(v) for k, v in rv}
        flat = [v for _, v in rv]
    elif op in ("walk", "multiwalk", "bulkwalk"):
        want = [(S(v[0]), pythonise(v[1:])) for v in rv]
        flat = [v[1:] for v in rv]
    elif op == "bulkget":
        want = ({S(k): pythonise(v) for k, v in rv[0]}, [(S(k), pythonise(v)) for k, v in rv[1]])
        flat = [v for _, v in rv[0] + rv[1]]
    else:
        want = [{k: (v if k == "0" else pythonise(v)) for k, v in row.items()} for row in rv]
        flat = [v for row in rv for k, v in row.items() if k != "0"]
    kinds = {f[0] for f in flat}
    if len(kinds) >= 2:
        classes.add("multi_type")
    has_dict = op in ("multiset", "bulkget", "table", "bulktable")
    if has_dict:
        classes.add("has_dict")
    nontrivial = len(kinds) >= 2 or (has_dict and bool(flat))
    cls = sorted(classes)

    def bad(msg):
        return Result("%s: %s" % (head, msg), nontrivial, cls)

    m = type_walk(wv)
    if m:
        return bad(m)

    def eq(a, b):
        return a == b and type(a) is type(b)

    if op in ("get", "set"):
        ok = eq(wv, want)
    elif op == "getnext":
        ok = isinstance(wv, tuple) and len(wv) == 2 and eq(wv[0], want[0]) and eq(wv[1], want[1])
    elif op == "multiget":
        ok = isinstance(wv, list) and len(wv) == len(want) and all(eq(a, b) for a, b in zip(wv, want))
    elif op == "multiset":
        ok = isinstance(wv, dict) and list(wv) == list(want) and all(eq(wv[k], want[k]) for k in want)
    elif op in ("walk", "multiwalk", "bulkwalk"):
        ok = len(wv) == len(want) and all(isinstance(a, tuple) and len(a) == 2 and eq(a[0], b[0]) and eq(a[1], b[1])
                                          for a, b in zip(wv, want))
    elif op == "bulkget":
        ok = (isinstance(wv, BulkResult) and isinstance(wv.scalars, dict) and isinstance(wv.listing, dict)
              and set(wv.scalars) == set(want[0]) and all(eq(wv.scalars[k], want[0][k]) for k in want[0])
              and [k for k in wv.listing] == [k for k, _ in want[1]]
              and all(eq(wv.listing[k], v) for k, v in want[1]))
    else:
        ok = (isinstance(wv, list) and len(wv) == len(want)
              and all(isinstance(a, dict) and set(a) == set(b) and all(eq(a[k], b[k]) for k in b) for a, b in zip(wv, want)))
    if not ok:
        return bad("returned %r, the pythonisation of the raw result is %r" % (wv, want))
    return Result(None, nontrivial, cls)


@st.composite
def cases(draw):
    proto = draw(st.sampled_from([vworld.V2C_PROTO] * 5 + [vworld.V1_PROTO] + vworld.V3_PROTOS[:2] + vworld.V3_PROTOS[3:4]))
    v1 = proto["v"] == "1"
    tags = vs.V1_TAGS + [vber.T_NULL] if v1 else None
    if draw(st.booleans()):
        # a conceptual table: base.1.col.index with mixed column types
        base = draw(st.sampled_from(vs.PREFIXES)) + (draw(st.integers(1, 40)),)
        ncol = draw(st.integers(1, 5))
        rows = draw(st.lists(st.lists(st.integers(0, 300), min_size=1, max_size=2), min_size=0, max_size=5, unique_by=tuple))
        dbl = []
        for c in range(1, ncol + 1):
            alltags = tags or [vber.T_INT, vber.T_OCTETS, vber.T_OID, vber.T_IPADDR, vber.T_COUNTER,
                               vber.T_GAUGE, vber.T_TICKS, vber.T_OPAQUE, vber.T_COUNTER64]
            coltag = draw(st.sampled_from(alltags))
            mixed = draw(st.integers(0, 3)) == 0     # a value column whose cells have different types
            for r in rows:
                if draw(st.integers(0, 5)):
                    ct = draw(st.sampled_from([vber.T_TICKS, vber.T_TICKS, vber.T_INT, vber.T_OCTETS] + alltags)) if mixed else coltag
                    dbl.append([list(base + (1, c) + tuple(r))] + draw(vs.value(tags=[ct])))
        dbl.append([list(base[:-1] + (base[-1] + 1, 0))] + draw(vs.value(tags=tags)))
        roots = [list(base + (1, c)) for c in range(1, ncol + 1)]
        table_oid, entry_oid = list(base), list(base + (1,))
    else:
        w = draw(vs.walk_world(value_tags=tags))
        dbl, roots = w["db"], w["roots"]
        table_oid = entry_oid = None   # not a conceptual table: table()/bulktable() are outside the domain
    # values that are falsy in Python on either side of the wrapper: zero, empty string, 0.0.0.0, zero ticks, and the
    # zero-length OBJECT IDENTIFIER some embedded agents send for "no reference" (x690 reads it as ObjectIdentifier())
    for _ in range(draw(st.sampled_from([0, 0, 1, 2, 4]))):
        if dbl:
            i = draw(st.integers(0, len(dbl) - 1))
            falsy = [[vber.T_INT, "00"], [vber.T_OCTETS, ""], [vber.T_OID, ""], [vber.T_OID, ""], [vber.T_IPADDR, "00000000"],
                     [vber.T_TICKS, "00"], [vber.T_COUNTER, "00"], [vber.T_GAUGE, "00"], [vber.T_OPAQUE, ""]]
            if not v1:
                falsy.append([vber.T_COUNTER64, "00"])
            dbl[i] = [dbl[i][0]] + draw(st.sampled_from(falsy))
    keys = [o for o, _, _ in dbl]
    pool = keys + [k[:-1] for k in keys[:4]] + [k + [0] for k in keys[:2]] + [[1, 3], [1, 3, 6, 1, 2, 1, 1, 1, 0]]
    ops = [o for o in OPS if not (v1 and o in ("bulkwalk", "bulkget", "bulktable"))
           and not (table_oid is None and o in ("table", "bulktable"))]
    ops = [o for o in ("bulkget", "table", "bulktable", "multiset", "multiset") if o in ops] * 2 + ops
    op = draw(st.sampled_from(ops))
    case = dict(db=dbl, proto=proto, op=op, bulk=draw(st.integers(1, 12)))
    oid = st.sampled_from(pool)
    if op in ("get", "getnext"):
        case["oids"] = [draw(oid)]
    elif op == "multiget":
        case["oids"] = draw(st.lists(oid, min_size=1, max_size=8))
    elif op in ("set", "multiset"):
        n = 1 if op == "set" else draw(st.integers(1, min(5, len({tuple(p) for p in pool}))))
        targets = draw(st.lists(oid, min_size=n, max_size=n, unique_by=tuple))
        case["set"] = [[t] + draw(vs.value(tags=vs.V1_TAGS if v1 else None, allow_null=False)) for t in targets]
        if draw(st.booleans()):
            case["confirm"] = [draw(vs.value(tags=vs.V1_TAGS if v1 else None, allow_null=False)) for _ in targets]
    elif op == "walk":
        case["oids"] = [roots[0]]
    elif op in ("multiwalk", "bulkwalk"):
        case["oids"] = sorted(roots)[:4]
    elif op == "table":
        case["oids"] = [entry_oid]
    elif op == "bulktable":
        case["oids"] = [table_oid]
    else:
        case["scalars"] = draw(st.lists(oid, max_size=3))
        case["repeaters"] = draw(st.lists(oid, min_size=0 if case["scalars"] else 1, max_size=3))
        case["maxrep"] = draw(st.integers(0, 6))
    return case


def units(tier, seed):
    n = 120 if tier == "quick" else 4000
    return [Unit("hyp-%d" % sh, hypothesis_unit, strategy=cases(), examples=n, seed=shard_seed(seed, sh),
                 label="hyp-%d" % sh) for sh in range(16)]
