"""C08 -- an agent error-status always surfaces as the documented exception,
never as data.  DESIGN.md section 3, C08."""
from __future__ import annotations

import itertools

from hypothesis import strategies as st

import vagent
import vber
import vworld
from puresnmp import exc as pexc
from vrunner import Result, Unit, enumeration_unit, hypothesis_unit, shard_seed

ID = "C08"
LEVEL = "fault_enumeration"
TECHNIQUE = ("fault enumeration: the full matrix error-status x error-index x binding count x operation x position of "
             "the failing request, answered by a scripted agent behind community / USM framing; oracle = an explicit "
             "RFC 3416 status table written in the check + 'no value of the error response reaches the caller'")
RULE = ("case = status {1..18, 19, 20, 127, 255, 2^31-1, -1, -2^31, 0x80 boundary values} x error-index 0..n+3 x n bindings 0..6 x "
        "operation {get, multiget, getnext, multigetnext, walk, multiwalk, bulkwalk, table, bulktable, set, multiset, bulkget} x "
        "failing request {first, a continuation request of a walk} x protocol {v1, v2c, v3 x 3 levels} x api {raw, pythonic}; "
        "non-trivial = index 0, index > n, status outside 1..18, or n = 0; distinct = the tuple itself")
ASSUMPTIONS = [
    "RFC 3416 error-status names map to puresnmp.exc classes by their documented IDENTIFIER (table written out in the check)",
    "status 2 (noSuchName) on a continuation request of a walk may end the walk normally (documented v1 end-of-tree signal)",
    "an 'empty' offending OID is any falsy / zero-length ObjectIdentifier or None",
]
EXHAUSTIVE = lambda tier: ("all (status, index, n, operation, failing request) tuples for v2c" +
                           (", v1 and the three SNMPv3 levels" if tier == "thorough" else ""))

# RFC 3416 section 3, error-status -- written out, not read from puresnmp
NAMES = {1: "TooBig", 2: "NoSuchOID", 3: "BadValue", 4: "ReadOnly", 5: "GenErr", 6: "NoAccess", 7: "WrongType",
         8: "WrongLength", 9: "WrongEncoding", 10: "WrongValue", 11: "NoCreation", 12: "InconsistentValue",
         13: "ResourceUnavailable", 14: "CommitFailed", 15: "UndoFailed", 16: "AuthorizationError",
         17: "NotWritable", 18: "InconsistentName"}
STATUSES = list(range(1, 19)) + [19, 20, 127, 128, 255, 256, 2 ** 31 - 1, -1, -128, -2 ** 31]
OPS = ["get", "multiget", "getnext", "multigetnext", "walk", "multiwalk", "bulkwalk", "table", "bulktable",
       "set", "multiset", "bulkget"]
WALKS = {"walk", "multiwalk", "bulkwalk", "table", "bulktable"}
MARK = (vber.T_INT, bytes.fromhex("7eadbeef"))
MARKVAL = 0x7EADBEEF

TBL = (1, 3, 6, 1, 4, 1, 77, 2)
DB = {}
for col in (1, 2):
    for row in (1, 2, 3):
        DB[TBL + (1, col, row)] = (vber.T_INT, bytes([col * 16 + row]))
DB[(1, 3, 6, 1, 4, 1, 77, 1, 0)] = (vber.T_OCTETS, b"scalar")
DB[(1, 3, 6, 1, 4, 1, 77, 3, 1, 0)] = (vber.T_OCTETS, b"after")
DB[(1, 3, 6, 1, 4, 1, 77, 3, 2, 0)] = (vber.T_GAUGE, b"\x07")
FRESH = (1, 3, 6, 1, 4, 1, 77, 9, 9)


def _contains_mark(x) -> bool:
    if isinstance(x, (list, tuple)):
        return any(_contains_mark(i) for i in x)
    if isinstance(x, dict):
        return any(_contains_mark(k) or _contains_mark(v) for k, v in x.items())
    v = getattr(x, "value", x)
    if isinstance(v, (list, tuple, dict)):
        return _contains_mark(v)
    return v == MARKVAL and not isinstance(v, bool)


def run_case(case) -> Result:
    status, index, n, op, at = case["status"], case["index"], case["n"], case["op"], case["at"]
    proto = case.get("proto", vworld.V2C_PROTO)
    api = case.get("api", "raw")
    version = {"1": 0, "2c": 1, "3": 3}[proto["v"]]
    cls = ["op=" + op, vworld.proto_label(proto), "at=%d" % at, "api=" + api]
    nontrivial = index == 0 or index > n or status not in NAMES or n == 0
    if index == 0:
        cls.append("index_0")
    if index > n:
        cls.append("index_beyond")
    if status not in NAMES:
        cls.append("status_unnamed")
    st8 = {}

    def hook(agent, req):
        k = st8.get("count", 0)
        st8["count"] = k + 1
        if k != at:
            return None
        pdu = req["pdu"]
        roids = [o for o, _, _ in pdu["vbs"]]
        vbs = []
        for i in range(n):
            o = roids[i] if i < len(roids) else FRESH + (i,)
            vbs.append((o,) + MARK)
        st8["sent"] = vbs
        if version == 3:
            return agent.v3_response(req, agent.users[req["user"]], status, index, vbs)
        return agent.community_response(version, pdu["rid"], status, index, vbs)

    agent, client = vworld.make_world(proto, DB, request_cap=12)
    agent.respond_hook = hook
    O = vworld.OID
    S = vagent.S
    py = vworld.PyWrapper(client)
    got = []
    col1, col2 = TBL + (1, 1), TBL + (1, 2)
    scalar = (1, 3, 6, 1, 4, 1, 77, 1, 0)

    async def drain(agen):
        async for x in agen:
            got.append(x)
        return None

    async def go():
        if api == "py":
            if op == "get":
                return await py.get(S(scalar))
            if op == "multiget":
                return await py.multiget([S(scalar), S(col1 + (1,)), S(col2 + (2,))])
            if op == "getnext":
                return await py.getnext(S(scalar))
            if op == "walk":
                return await drain(py.walk(S(col1)))
            if op == "multiwalk":
                return await drain(py.multiwalk([S(col1), S(col2)]))
            if op == "bulkwalk":
                return await drain(py.bulkwalk([S(col1), S(col2)], bulk_size=2))
            if op == "table":
                return await py.table(S(TBL + (1,)))
            if op == "bulktable":
                return await py.bulktable(S(TBL), bulk_size=2)
            if op == "set":
                return await py.set(S(scalar), vworld.make_value(vber.T_OCTETS, b"x"))
            if op == "multiset":
                return await py.multiset({S(scalar): vworld.make_value(vber.T_OCTETS, b"x"),
                                          S(col1 + (1,)): vworld.make_value(vber.T_INT, b"\x05")})
            if op == "bulkget":
                return await py.bulkget([S(scalar)], [S(col1), S(col2)], max_list_size=2)
        if op == "get":
            return await client.get(O(scalar))
        if op == "multiget":
            return await client.multiget([O(scalar), O(col1 + (1,)), O(col2 + (2,))])
        if op == "getnext":
            return await client.getnext(O(scalar))
        if op == "multigetnext":
            return await client.multigetnext([O(scalar), O(col1), O(col2 + (1,))])
        if op == "walk":
            return await drain(client.walk(O(col1)))
        if op == "multiwalk":
            return await drain(client.multiwalk([O(col1), O(col2)]))
        if op == "bulkwalk":
            return await drain(client.bulkwalk([O(col1), O(col2)], bulk_size=2))
        if op == "table":
            return await client.table(O(TBL + (1,)))
        if op == "bulktable":
            return await client.bulktable(O(TBL), bulk_size=2)
        if op == "set":
            return await client.set(O(scalar), vworld.make_value(vber.T_OCTETS, b"x"))
        if op == "multiset":
            return await client.multiset({O(scalar): vworld.make_value(vber.T_OCTETS, b"x"),
                                          O(col1 + (1,)): vworld.make_value(vber.T_INT, b"\x05")})
        if op == "bulkget":
            return await client.bulkget([O(scalar)], [O(col1), O(col2)], max_list_size=2)
        raise ValueError(op)

    exc = res = None
    try:
        res = vworld.run(go())
    except vagent.AgentInternalError as e:
        return Result("client sent something the reference agent cannot handle: %s" % e, nontrivial, cls)
    except vagent.CapExceeded:
        return Result("%s sent more than 12 requests" % op, nontrivial, cls)
    except Exception as e:  # noqa
        exc = e
    if exc is not None and vworld.f10b_excusable(agent, exc):
        return Result("AuthenticationError on an authentic response with a 127-octet TLV", nontrivial, cls,
                      known="reencoded_len_127")
    head = "%s %s(%s) status=%d index=%d n=%d failing-request=%d" % (vworld.proto_label(proto), op, api, status, index, n, at)

    def bad(msg):
        return Result("%s: %s" % (head, msg), nontrivial, cls)

    if "sent" not in st8:
        return bad("the operation never issued request #%d (harness expectation), outcome %r" % (at, exc or res))
    # -- no data from the error response -------------------------------------
    if _contains_mark(res) or _contains_mark(got):
        return bad("a value of the error response reached the caller: %r" % (res if res is not None else got,))
    tolerated_end = (op in WALKS and at >= 1 and status == 2 and exc is None)
    if tolerated_end:
        cls.append("nosuchname_ends_walk")
    elif exc is None:
        return bad("returned %r instead of raising" % (res if res is not None else got,))
    else:
        if not isinstance(exc, pexc.ErrorResponse):
            return bad("raised %s: %s, not an ErrorResponse" % (type(exc).__name__, exc))
        want = NAMES.get(status)
        if want is not None and type(exc).__name__ != want:
            return bad("raised %s, RFC 3416 status %d is %s" % (type(exc).__name__, status, want))
        if want is None and type(exc).__name__ in NAMES.values():
            return bad("raised %s for the unassigned status %d (generic ErrorResponse expected)" % (type(exc).__name__, status))
        if exc.error_status != status:
            return bad("exception carries error_status %r" % (exc.error_status,))
        sent = st8["sent"]
        off = exc.offending_oid
        off_t = vworld.oid_tuple(off) if off is not None else ()
        if 1 <= index <= n:
            if off_t != sent[index - 1][0]:
                return bad("offending_oid is %s, error-index selects %s" % (off, vagent.S(sent[index - 1][0])))
        elif off_t != ():
            return bad("offending_oid is %s although error-index %d selects no binding" % (off, index))
    # -- what was delivered before the failing request is genuine ------------
    if op in WALKS and op not in ("table", "bulktable"):
        for vb in got:
            o = vworld.oid_tuple(vb[0])
            if o not in DB:
                return bad("delivered %s which the agent does not hold" % vagent.S(o))
        if at == 0 and got:
            return bad("delivered %d bindings although the first response was an error" % len(got))
    return Result(None, nontrivial, cls, key=(status, index, n, op, at, vworld.proto_label(proto), api))


def matrix(proto, api="raw", statuses=STATUSES):
    out = []
    for status, n, op in itertools.product(statuses, range(0, 7), OPS):
        if proto["v"] == "1" and op in ("bulkwalk", "bulktable", "bulkget"):
            continue
        if api == "py" and op == "multigetnext":
            continue
        for index in range(0, n + 4):
            for at in ((0, 1) if op in WALKS else (0,)):
                out.append(dict(status=status, index=index, n=n, op=op, at=at, proto=proto, api=api))
    return out


class _Shard:
    def __init__(self, proto, api, k, m, statuses=None):
        self.args = (proto, api, k, m, statuses)

    def __iter__(self):
        proto, api, k, m, statuses = self.args
        return iter(matrix(proto, api, statuses or STATUSES)[k::m])


@st.composite
def cases(draw):
    proto = draw(st.sampled_from([vworld.V1_PROTO] + vworld.V3_PROTOS))
    api = draw(st.sampled_from(["raw", "raw", "py"]))
    ops = [o for o in OPS if not (proto["v"] == "1" and o in ("bulkwalk", "bulktable", "bulkget"))
           and not (api == "py" and o == "multigetnext")]
    op = draw(st.sampled_from(ops))
    n = draw(st.integers(0, 6))
    status = draw(st.one_of(st.sampled_from(STATUSES), st.integers(-2 ** 31, 2 ** 31 - 1).filter(lambda x: x != 0)))
    return dict(status=status, index=draw(st.integers(0, n + 3)), n=n, op=op,
                at=draw(st.sampled_from([0, 1])) if op in WALKS else 0, proto=proto, api=api)


def units(tier, seed):
    us = []
    for k in range(12):
        us.append(Unit("matrix-v2c-%d" % k, enumeration_unit, cases=_Shard(vworld.V2C_PROTO, "raw", k, 12),
                       label="matrix-v2c-%d" % k, sample_every=997))
    if tier == "quick":
        us.append(Unit("matrix-v2c-py", enumeration_unit, cases=_Shard(vworld.V2C_PROTO, "py", 0, 1, [2, 5, 19, -1]),
                       label="matrix-v2c-py", sample_every=997))
        for sh in range(3):
            us.append(Unit("hyp-%d" % sh, hypothesis_unit, strategy=cases(), examples=700,
                           seed=shard_seed(seed, sh), label="hyp-%d" % sh))
    else:
        protos = [vworld.V1_PROTO] + vworld.V3_PROTOS
        for p in protos:
            for k in range(4):
                us.append(Unit("matrix-%s-%d" % (vworld.proto_label(p), k), enumeration_unit,
                               cases=_Shard(p, "raw", k, 4), label="matrix-%s-%d" % (vworld.proto_label(p), k),
                               sample_every=997))
        for k in range(4):
            us.append(Unit("matrix-v2c-py-%d" % k, enumeration_unit, cases=_Shard(vworld.V2C_PROTO, "py", k, 4),
                           label="matrix-v2c-py-%d" % k, sample_every=997))
        for sh in range(8):
            us.append(Unit("hyp-%d" % sh, hypothesis_unit, strategy=cases(), examples=4000,
                           seed=shard_seed(seed, sh), label="hyp-%d" % sh))
    return us
