"""C11 -- USM privacy: the scoped PDU only ever travels as the plug-in's
ciphertext.  DESIGN.md section 3, C11."""
from __future__ import annotations

import importlib

from hypothesis import strategies as st

import vagent
import vber
import vclock
import vworld
from vrunner import Result, Unit, hypothesis_unit, shard_seed

ID = "C11"
LEVEL = "exploration"
TECHNIQUE = ("property-based testing (Hypothesis) with recording privacy plug-ins supplied through the puresnmp_plugins "
             "namespace (a stream transform and a length-changing block transform): every datagram is compared with what "
             "the plug-in returned, the key the plug-in received with the independent RFC 3414 localisation, and the agent "
             "(own implementation of the transforms) must decrypt every request; multi-session cases rotate passwords, "
             "hashes and engines inside one process")
RULE = ("case = 1..3 sessions in one process, each = authPriv user (MD5 | SHA-1, auth and privacy passwords 1..64 octets, plug-in "
        "verifstream | verifblock, salt of any shape: 8 octets, 16-octet counter with leading zeros, 8 or 12 zero octets, empty, 40 octets; likewise in responses) x engine id x optional context engine id / name x operation {get, multiget, getnext, set, "
        "multiset, walk, bulkwalk, a SET refused with error-status 17 inside an encrypted response} with marker strings in SET values and context name; the last session's plug-in may be one that is installed only when that session starts; sessions may reuse user name and "
        "engine with a rotated privacy password or the other hash; plus the boundary of an EMPTY privacy password (nothing may leave in clear); non-trivial = a SET carrying a marker, a payload of >= 2 "
        "keystream blocks, or >= 2 sessions sharing user name and engine; distinct = SHA-1 of canonical JSON case")
ASSUMPTIONS = [
    "the privacy key is the privacy password localised with the user's authentication hash to the authoritative engine id (RFC 3414 2.6 / A.2)",
    "the harness plug-ins are valid puresnmp privacy plug-ins (IDENTIFIER, IANA_ID, encrypt_data, decrypt_data); decrypt inverts encrypt",
    "engine boots / time handed to the plug-in are the discovered ones (timeliness over the client's life is C12)",
]
_REQUIRED_BASE = {"marker_set": 0.09, "two_blocks": 0.15, "shared_user_engine": 0.06, "verifblock": 0.12}   # (60 % of the fractions first required: room for seed-to-seed variation)
# generator health of the newer case families (quick tier: the thorough tier dilutes them with enumerated units)
_REQUIRED_QUICK = {"salt_shapes": 0.09, "plugin_installed_late": 0.012}   # (60 % of the fractions first required: room for seed-to-seed variation)


def REQUIRED_CLASSES(tier):
    return dict(_REQUIRED_BASE, **(_REQUIRED_QUICK if tier == "quick" else {}))

MARK = b"TOP-SECRET-MARKER-0123456789"
SCALAR = (1, 3, 6, 1, 4, 1, 43, 1, 0)
COL = (1, 3, 6, 1, 4, 1, 43, 2, 1, 1)
DB = {SCALAR: (vber.T_OCTETS, b"public-value"), (1, 3, 6, 1, 4, 1, 43, 3, 0): (vber.T_INT, b"\x07")}
for _r in (1, 2, 3):
    DB[COL + (_r,)] = (vber.T_OCTETS, b"cell-%d" % _r + b"x" * 30)


_LATE = {}       # privacy plug-ins installed while the process is running: name -> (directory, module)


def _plugins():
    out = {n: importlib.import_module("puresnmp_plugins.priv." + n) for n in ("verifstream", "verifblock")}
    out.update({n: m for n, (_d, m) in _LATE.items()})
    return out


def install_late_plugin(name="veriflate"):
    """a valid privacy plug-in (a copy of verifstream under another identifier) that becomes available only NOW, after the
    process has already looked plug-ins up -- as when a package is installed into a running application"""
    import os
    import shutil
    import sys
    import tempfile

    if name in _LATE:
        return
    src = importlib.import_module("puresnmp_plugins.priv.verifstream").__file__
    d = tempfile.mkdtemp(prefix="c11-late-")
    os.makedirs(os.path.join(d, "puresnmp_plugins", "priv"))
    code = open(src).read().replace('IDENTIFIER = "verifstream"', 'IDENTIFIER = "%s"' % name).replace("IANA_ID = -99", "IANA_ID = -97")
    with open(os.path.join(d, "puresnmp_plugins", "priv", name + ".py"), "w") as f:
        f.write(code)
    sys.path.append(d)
    importlib.invalidate_caches()
    mod = importlib.import_module("puresnmp_plugins.priv." + name)
    vagent.PRIV_IMPL[name] = vagent.PRIV_IMPL["verifstream"]
    _LATE[name] = (d, mod)

    import atexit
    atexit.register(shutil.rmtree, d, True)


def remove_late_plugins():
    import shutil
    import sys

    for name, (d, _m) in list(_LATE.items()):
        if d in sys.path:
            sys.path.remove(d)
        sys.modules.pop("puresnmp_plugins.priv." + name, None)
        shutil.rmtree(d, ignore_errors=True)
        vagent.PRIV_IMPL.pop(name, None)
        del _LATE[name]
    importlib.invalidate_caches()


def run_session(s, classes):
    proto = {"v": "3", "user": s["user"], "engine_id": s["engine_id"], "algo": s["algo"], "auth_pw": s["auth_pw"],
             "priv_pw": s["priv_pw"], "priv": s["priv"]}
    if s.get("ctx_engine"):
        proto["ctx_engine"] = s["ctx_engine"]
    if s.get("ctx_name"):
        proto["ctx_name"] = s["ctx_name"]
    plug = _plugins()
    for p in plug.values():
        del p.CALLS[:]
        p.SALT_MODE[0] = s.get("salt", "default")
    if s.get("salt", "default") != "default" or s.get("resp_salt", "default") != "default":
        classes.add("salt_shapes")
    try:
        return _run_session(s, classes, proto, plug)
    finally:
        for p in plug.values():
            p.SALT_MODE[0] = "default"


def _run_session(s, classes, proto, plug):
    agent, client = vworld.make_world(proto, dict(DB), request_cap=40)
    agent.salt_mode = s.get("resp_salt", "default")
    O = vworld.OID
    op = s["op"]
    secret = MARK + b"/" + bytes.fromhex(s.get("pad", ""))
    label = "%s %s user=%r plug-in=%s" % (vworld.proto_label(proto), op, s["user"], s["priv"])

    async def go():
        if op == "get":
            return vworld.observe(await client.get(O(SCALAR)))
        if op == "multiget":
            return [vworld.observe(v) for v in await client.multiget([O(SCALAR), O(COL + (2,))])]
        if op == "getnext":
            return vworld.observe_vb(await client.getnext(O(COL)))
        if op == "set":
            return vworld.observe(await client.set(O(SCALAR), vworld.make_value(vber.T_OCTETS, secret)))
        if op == "multiset":
            r = await client.multiset({O(SCALAR): vworld.make_value(vber.T_OCTETS, secret),
                                       O(COL + (1,)): vworld.make_value(vber.T_OPAQUE, secret[::-1])})
            return sorted((vworld.oid_tuple(k), vworld.observe(v)) for k, v in r.items())
        if op == "set_refused":
            return vworld.observe(await client.set(O(SCALAR), vworld.make_value(vber.T_OCTETS, secret)))
        if op == "walk":
            return [vworld.observe_vb(vb) async for vb in client.walk(O(COL))]
        if op == "bulkwalk":
            return [vworld.observe_vb(vb) async for vb in client.bulkwalk([O(COL)], bulk_size=2)]
        raise ValueError(op)

    if op == "set_refused":
        # the agent refuses the SET with error-status notWritable(17) -- inside an ENCRYPTED response
        def refuse(a, req):
            pdu = req["pdu"]
            return a.v3_response(req, a.users[req["user"]], 17, 1, [(o, vber.T_NULL, b"") for o, _, _ in pdu["vbs"]])
        agent.respond_hook = refuse
    cells = [(COL + (r,), "OctetString", DB[COL + (r,)][1]) for r in (1, 2, 3)]
    want = {"get": ("OctetString", b"public-value"),
            "multiget": [("OctetString", b"public-value"), ("OctetString", DB[COL + (2,)][1])],
            "getnext": cells[0], "set": ("OctetString", secret),
            "multiset": sorted([(SCALAR, ("OctetString", secret)), (COL + (1,), ("Opaque", secret[::-1]))]),
            "walk": cells, "bulkwalk": cells, "set_refused": "NotWritable"}[op]
    exc = res = None
    with vclock.fixed(1_700_000_000):
        try:
            res = vworld.run(go())
        except vagent.AgentInternalError as e:
            return "%s: the client emitted something the independent implementation cannot parse: %s" % (label, e), None
        except vagent.CapExceeded:
            return "%s: more than 40 requests" % label, None
        except Exception as e:  # noqa
            exc = e
    user = agent.users[s["user"].encode("ascii")]
    want_key = agent.priv_key(user)
    mod = plug[s["priv"]]
    other = plug["verifblock" if s["priv"] == "verifstream" else "verifstream"]
    if other.CALLS:
        return "%s: the other privacy plug-in (%s) was called" % (label, other.IDENTIFIER), None
    encs = [c for c in mod.CALLS if c["op"] == "enc"]
    decs = [c for c in mod.CALLS if c["op"] == "dec"]
    data = [r for r in agent.log if not r.get("discovery")]
    if not data:
        return "%s: no request was sent (%r)" % (label, exc), None
    disco = [r for r in agent.log if r.get("discovery")]
    ctx_name = bytes.fromhex(s.get("ctx_name", ""))
    for i, r in enumerate(data):
        raw = r["raw"]
        # (c) nothing secret in clear
        for what, needle in (("the SET value marker", MARK), ("the context name", ctx_name if len(ctx_name) >= 6 else None),
                             ("a requested OID", vber.oid_content(COL) if op in ("walk", "bulkwalk", "getnext", "multiget") else None)):
            if needle and (needle in r["engine_id"] or needle in r["user"]):
                continue     # the generated engine id / user name itself contains the needle: legitimately in clear
            if needle and needle in raw:
                return "%s: %s travels in clear in datagram %d: %s" % (label, what, i, raw.hex()[:300]), None
        if r["flags"] & 3 != 3:
            return "%s: msgFlags %#04x for an authPriv user" % (label, r["flags"]), None
        # (a) the datagram carries exactly the plug-in's ciphertext and salt
        if "cipher" not in r:
            return "%s: datagram %d carries a plaintext scoped PDU" % (label, i), None
        match = [c for c in encs if c["out"] == r["cipher"]]
        if not match:
            return "%s: the encrypted PDU of datagram %d is not a ciphertext the plug-in returned (plug-in calls: %d)" % (label, i, len(encs)), None
        c = match[0]
        if r["salt"] != c["salt"]:
            return "%s: msgPrivacyParameters %s, the plug-in returned salt %s" % (label, r["salt"].hex(), c["salt"].hex()), None
        try:
            sc = vber.parse_scoped(c["data"])
        except vber.BerError as e:
            return "%s: the plug-in was handed something that is not a scoped PDU: %s" % (label, e), None
        # (b) key and parameters
        if c["key"] != want_key:
            return "%s: the plug-in received key %s, RFC 3414 localisation of the privacy password with %s gives %s" % (
                label, c["key"].hex(), user.algo, want_key.hex()), None
        if c["engine_id"] != agent.engine_id:
            return "%s: the plug-in received engine id %s, discovered %s" % (label, c["engine_id"].hex(), agent.engine_id.hex()), None
        if (c["boots"], c["time"]) != (disco[0]["boots_at"], disco[0]["engine_time_at"]) and disco:
            if c["boots"] != agent.boots or abs(c["time"] - r["engine_time_at"]) > 150:
                return "%s: the plug-in received boots/time %r/%r, the agent is at %r/%r" % (
                    label, c["boots"], c["time"], agent.boots, r["engine_time_at"]), None
        if r.get("verdict") != "accepted":
            return "%s: the agent could not process request %d: %s %s" % (label, i, r.get("verdict"), r.get("decrypt_exc", "")), None
        if sc["ctx_name"] != ctx_name:
            return "%s: contextName %r inside the ciphertext, configured %r" % (label, sc["ctx_name"], ctx_name), None
    if agent.stats["decryptError"] or agent.stats["wrongDigest"]:
        return "%s: usmStats moved: %r" % (label, agent.stats), None
    if op == "set_refused":
        # the encrypted error response must round-trip: the documented exception, not a decryption failure
        if type(exc).__name__ != "NotWritable" or getattr(exc, "error_status", None) != 17:
            return "%s: an encrypted response carrying error-status 17 surfaced as %r" % (label, exc if exc else res), None
        exc = None
        res = want
    if exc is not None:
        if vworld.f10b_excusable(agent, exc):
            return "%s: AuthenticationError on an authentic response with a 127-octet TLV" % label, "reencoded_len_127"
        return "%s: the encrypted authentic response was not accepted: %s: %s" % (label, type(exc).__name__, exc), None
    # (d) responses decrypted with the key and the parameters found in the message
    for r in data:
        m = vber.parse_message(r["response"])
        hit = [d for d in decs if d["data"] == m.get("cipher")]
        if not hit:
            return "%s: the response ciphertext never reached the plug-in's decrypt_data" % label, None
        d = hit[0]
        if d["salt"] != m["salt"] or d["key"] != want_key:
            return "%s: decrypt_data got salt %s / key %s, the message carries salt %s and the key is %s" % (
                label, d["salt"].hex(), d["key"].hex()[:16], m["salt"].hex(), want_key.hex()[:16]), None
    if res != want:
        return "%s: returned %r, the agent answered %r" % (label, res, want), None
    return None, None


def run_empty_priv(case) -> Result:
    """boundary of 'all privacy passwords': Priv(b"", method).  Whatever the client does with such credentials, a
    request must not leave with its scoped PDU in clear."""
    from puresnmp import V3, Auth, Priv

    s = case["sessions"][0]
    agent = vagent.Agent(dict(DB), users=[vagent.User(s["user"].encode(), algo=s["algo"], auth_pw=bytes.fromhex(s["auth_pw"]))],
                         engine_id=bytes.fromhex(s["engine_id"]), request_cap=10)
    seen = []

    async def sender(endpoint, data, timeout=None, retries=None, loop=None):
        seen.append(bytes(data))
        return agent.handle_or_timeout(bytes(data))

    creds = V3(s["user"], Auth(bytes.fromhex(s["auth_pw"]), s["algo"]), Priv(b"", s["priv"]))
    client = vworld.Client("192.0.2.1", creds, sender=sender)
    secret = MARK + b"/empty-priv-password"
    outcome = "returned"
    try:
        vworld.run(client.set(vworld.OID(SCALAR), vworld.make_value(vber.T_OCTETS, secret)))
    except Exception as e:  # noqa  -- refusing such credentials is fine
        outcome = type(e).__name__
    classes = ["empty_priv_password", s["priv"], "outcome=" + outcome]
    for raw in seen:
        try:
            m = vber.parse_message(raw)
        except vber.BerError:
            continue
        if m.get("engine_id") == b"":
            continue
        if "pdu" in m or MARK in raw:
            return Result("credentials with an (empty-password) privacy entry: a request left with its scoped PDU in clear "
                          "(msgFlags %#04x): %s" % (m["flags"], raw.hex()[:300]), True, classes)
    return Result(None, True, classes)


def run_case(case) -> Result:
    if case.get("kind") == "empty_priv":
        return run_empty_priv(case)
    classes = set()
    sessions = case["sessions"]
    keyset = [(s["user"], s["engine_id"]) for s in sessions]
    if len(set(keyset)) < len(keyset):
        classes.add("shared_user_engine")
    nontrivial = "shared_user_engine" in classes
    for s in sessions:
        classes.add(s["priv"])
        if s["op"] in ("set", "multiset", "set_refused"):
            classes.add("marker_set")
            nontrivial = True
        if s["op"] in ("set", "multiset", "walk", "bulkwalk", "multiget") or len(s.get("ctx_name", "")) > 60:
            classes.add("two_blocks")
            nontrivial = True
    try:
        for i, s in enumerate(sessions):
            if s["priv"] == "veriflate":
                # this session's plug-in is installed only now -- after the earlier sessions (if any) made the library look
                # plug-ins up
                classes.add("plugin_installed_late" if i else "plugin_installed_before_first_use")
                nontrivial = nontrivial or i > 0
                install_late_plugin()
            msg, known = run_session(s, classes)
            if msg is not None:
                return Result("session %d: %s" % (i, msg), nontrivial, sorted(classes), known=known)
    finally:
        remove_late_plugins()
    return Result(None, nontrivial, sorted(classes))


ENGINES = [b"\x80\x00\x1f\x88\x80verif-agent", b"\x80\x00\x00\x09\x05" + b"\x00" * 12 + b"\x2a", b"12345", b"\xff" * 32]
OPS = ["get", "multiget", "getnext", "set", "set", "multiset", "walk", "bulkwalk", "set_refused"]


@st.composite
def session(draw):
    s = dict(user=draw(st.sampled_from(["usr", "privuser", "x" * 32])),
             engine_id=draw(st.one_of(st.sampled_from(ENGINES), st.binary(min_size=5, max_size=32))).hex(),
             algo=draw(st.sampled_from(["md5", "sha1"])),
             auth_pw=draw(st.binary(min_size=1, max_size=64)).hex(),
             priv_pw=draw(st.binary(min_size=1, max_size=64)).hex(),
             priv=draw(st.sampled_from(["verifstream", "verifblock"])),
             op=draw(st.sampled_from(OPS)), pad=draw(st.binary(max_size=80)).hex())
    if draw(st.integers(0, 2)) == 0:
        # the shape of the salt is the plug-in's (and the agent's) own business
        s["salt"] = draw(st.sampled_from(["counter16", "counter16", "zeros12", "zeros8", "empty", "long40", "ff12"]))
        s["resp_salt"] = draw(st.sampled_from(["default", "counter16", "zeros12", "empty", "long40", "ff12"]))
    if draw(st.integers(0, 3)) == 0:
        s["ctx_engine"] = draw(st.one_of(st.sampled_from(ENGINES), st.binary(min_size=5, max_size=32))).hex()
    if draw(st.integers(0, 2)) == 0:
        s["ctx_name"] = (b"ctx-" + MARK[:draw(st.integers(2, 20))] + draw(st.binary(max_size=40))).hex()
    return s


@st.composite
def cases(draw):
    if draw(st.integers(0, 24)) == 0:
        return dict(kind="empty_priv", sessions=[draw(session())])
    n = draw(st.sampled_from([1, 2, 2, 3]))
    sessions = [draw(session()) for _ in range(n)]
    for i in range(1, n):
        pat = draw(st.sampled_from(["none", "rotate_priv", "other_hash", "other_engine", "same_pw_both"]))
        a, b = sessions[i - 1], dict(sessions[i])
        if pat == "rotate_priv":
            b.update(user=a["user"], engine_id=a["engine_id"], algo=a["algo"], auth_pw=a["auth_pw"])
        elif pat == "other_hash":
            b.update(user=a["user"], engine_id=a["engine_id"], auth_pw=a["auth_pw"], priv_pw=a["priv_pw"],
                     algo="sha1" if a["algo"] == "md5" else "md5")
        elif pat == "other_engine":
            b.update(user=a["user"], algo=a["algo"], auth_pw=a["auth_pw"], priv_pw=a["priv_pw"])
        elif pat == "same_pw_both":
            b.update(priv_pw=b["auth_pw"])
        sessions[i] = b
    if draw(st.integers(0, 5)) == 0:
        sessions[-1]["priv"] = "veriflate"       # a plug-in that is installed while the process is running
    return dict(sessions=sessions)


def units(tier, seed):
    n = 70 if tier == "quick" else 3000
    return [Unit("hyp-%d" % sh, hypothesis_unit, strategy=cases(), examples=n, seed=shard_seed(seed, sh),
                 label="hyp-%d" % sh) for sh in range(16)]
