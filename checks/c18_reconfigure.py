"""C18 -- temporary reconfiguration applies inside its block and is undone
exactly.  DESIGN.md section 3, C18."""
from __future__ import annotations

from hypothesis import strategies as st

import vagent
import vber
import vworld
from vrunner import Result, Unit, hypothesis_unit, shard_seed

ID = "C18"
LEVEL = "exploration"
TECHNIQUE = ("model-based stateful testing (Hypothesis-generated operation histories, shrunk as one value): configure / "
             "enter reconfigure / exit normally or by exception / request / unknown setting, interpreted against a model "
             "stack; every datagram at the sender seam (discovery probes included) is decoded independently and compared "
             "with the model's top-of-stack settings")
RULE = ("case = history of 3..30 steps from {configure(**kw), enter reconfigure(**kw), exit (normal | exception), request "
        "(get | set | walk), unknown setting (permanent | temporary, alone or together with valid settings incl. credentials of another family)} with kw drawn from timeout, retries, credentials (V1 / V2C "
        "communities, three SNMPv3 users) and context, nesting depth <= 4; invariant after every step: client.config equals "
        "the model top; per request: timeout / retries / version / community-or-user / context of every datagram equal the "
        "model top and the request succeeds; non-trivial = nesting depth >= 2, an exceptional exit, or a credential-family "
        "switch, with at least one request afterwards; distinct = SHA-1 of canonical JSON case")
ASSUMPTIONS = [
    "client.config.timeout / retries / credentials / context are the documented observable configuration",
    "an unknown setting may be refused with any exception",
    "engine discovery may be repeated whenever the implementation likes (before every request, say) -- its datagrams must carry the timeout / retries in force -- with one exception taken from the statement's words 'behaves exactly as before entering': if the request issued just before a block was entered needed no discovery, the first request after the block is left needs none either",
]
_REQUIRED_BASE = {"depth>=2": 0.09, "exceptional_exit": 0.072, "family_switch": 0.12, "bad_setting": 0.06, "v3_request": 0.06}   # (60 % of the fractions first required: room for seed-to-seed variation)
# generator health of the newer case families (quick tier: the thorough tier dilutes them with enumerated units)
_REQUIRED_QUICK = {"bad_setting_with_family_switch": 0.03}   # (60 % of the fractions first required: room for seed-to-seed variation)


def REQUIRED_CLASSES(tier):
    return dict(_REQUIRED_BASE, **(_REQUIRED_QUICK if tier == "quick" else {}))

CREDS = [
    {"v": "2c", "community": "public"}, {"v": "2c", "community": "rw-community"}, {"v": "1", "community": "public"},
    {"v": "1", "community": "v1-other"}, vworld.V3_PROTOS[0], vworld.V3_PROTOS[1], vworld.V3_PROTOS[3],
]
DB = {(1, 3, 6, 1, 2, 1, 1, 1, 0): (vber.T_OCTETS, b"descr"), (1, 3, 6, 1, 2, 1, 1, 5, 0): (vber.T_OCTETS, b"name"),
      (1, 3, 6, 1, 2, 1, 2, 1, 0): (vber.T_INT, b"\x02")}


class _Boom(Exception):
    pass


def run_case(case) -> Result:
    from puresnmp.api.raw import Context

    steps = case["steps"]
    users = [vworld.agent_user(c) for c in CREDS if c["v"] == "3"]
    agent = vagent.Agent(dict(DB), users=users, request_cap=400)
    seen = []

    async def sender(endpoint, data, timeout=None, retries=None, loop=None):
        m = vber.parse_message(bytes(data))
        rec = dict(version=m["version"], timeout=timeout, retries=retries)
        if m["version"] in (0, 1):
            rec["who"] = m["community"]
            agent.community = m["community"]       # answer whatever community is spoken; the oracle compares it
        else:
            rec["who"] = m["user"]
            rec["disco"] = m["engine_id"] == b""
            rec["ctx_name"] = m.get("ctx_name")
            rec["ctx_engine"] = m.get("ctx_engine")
            rec["engine_id"] = m["engine_id"]
        seen.append(rec)
        return agent.handle_or_timeout(bytes(data), timeout=timeout, retries=retries)

    init = case["init"]
    model = [dict(timeout=6, retries=10, creds=init, ctx=("", ""))]
    client = vworld.Client("192.0.2.1", vworld.creds(init), sender=sender)
    cms = []
    classes = set()
    interesting = False
    requests_after = 0
    O = vworld.OID

    def kwargs(kw):
        out = {}
        if "timeout" in kw:
            out["timeout"] = kw["timeout"]
        if "retries" in kw:
            out["retries"] = kw["retries"]
        if "creds" in kw:
            out["credentials"] = vworld.creds(CREDS[kw["creds"]])
        if "ctx" in kw:
            out["context"] = Context(bytes.fromhex(kw["ctx"][0]), bytes.fromhex(kw["ctx"][1]))
        return out

    def apply(top, kw):
        new = dict(top)
        if "timeout" in kw:
            new["timeout"] = kw["timeout"]
        if "retries" in kw:
            new["retries"] = kw["retries"]
        if "creds" in kw:
            if CREDS[kw["creds"]]["v"] != top["creds"]["v"]:
                classes.add("family_switch")
            new["creds"] = CREDS[kw["creds"]]
            for k in ("baseline_disco", "after_block", "last_disco"):
                new.pop(k, None)             # other credentials: the message layer may be a new one
        if "ctx" in kw:
            new["ctx"] = tuple(kw["ctx"])
        return new

    def config_mismatch(where):
        top = model[-1]
        cfg = client.config
        want_c = vworld.creds(top["creds"])
        if cfg.timeout != top["timeout"] or cfg.retries != top["retries"]:
            return "%s: client.config has timeout=%r retries=%r, expected %r / %r" % (
                where, cfg.timeout, cfg.retries, top["timeout"], top["retries"])
        if type(cfg.credentials) is not type(want_c) or cfg.credentials != want_c:
            return "%s: client.config.credentials is %r, expected %s" % (where, cfg.credentials, top["creds"])
        if (cfg.context.engine_id, cfg.context.name) != (bytes.fromhex(top["ctx"][0]), bytes.fromhex(top["ctx"][1])):
            return "%s: client.config.context is %r, expected %r" % (where, cfg.context, top["ctx"])
        return None

    def do_request(kind, where):
        top = model[-1]
        del seen[:]

        async def go():
            if kind == "get":
                return vworld.observe(await client.get(O((1, 3, 6, 1, 2, 1, 1, 1, 0))))
            if kind == "set":
                return vworld.observe(await client.set(O((1, 3, 6, 1, 2, 1, 1, 5, 0)), vworld.make_value(vber.T_OCTETS, b"name")))
            return [vworld.observe_vb(vb) async for vb in client.walk(O((1, 3, 6, 1, 2, 1, 1)))]

        try:
            res = vworld.run(go())
        except vagent.AgentInternalError as e:
            return "%s: the client sent something the reference agent cannot handle: %s" % (where, e)
        except Exception as e:  # noqa
            if vworld.f10b_excusable(agent, e):
                return "F10B"
            return "%s: %s under %s raised %s: %s" % (where, kind, top["creds"], type(e).__name__, e)
        want = {"get": ("OctetString", b"descr"), "set": ("OctetString", b"name"),
                "walk": [((1, 3, 6, 1, 2, 1, 1, 1, 0), "OctetString", b"descr"), ((1, 3, 6, 1, 2, 1, 1, 5, 0), "OctetString", b"name")]}[kind]
        if res != want:
            return "%s: %s returned %r, expected %r" % (where, kind, res, want)
        version = {"1": 0, "2c": 1, "3": 3}[top["creds"]["v"]]
        if not seen:
            return "%s: no datagram reached the sender" % where
        for rec in seen:
            if rec["timeout"] != top["timeout"] or rec["retries"] != top["retries"]:
                return "%s: a %sdatagram reached the transport with timeout=%r retries=%r, the settings in force are %r / %r" % (
                    where, "discovery " if rec.get("disco") else "", rec["timeout"], rec["retries"], top["timeout"], top["retries"])
            if rec["version"] != version:
                return "%s: a datagram speaks version %d, the credentials in force are %s" % (where, rec["version"], top["creds"])
            if rec.get("disco"):
                continue
            if version == 3:
                classes.add("v3_request")
                if rec["who"] != top["creds"]["user"].encode():
                    return "%s: user %r on the wire, the credentials in force are %s" % (where, rec["who"], top["creds"])
                if rec["ctx_name"] is not None:
                    if rec["ctx_name"] != bytes.fromhex(top["ctx"][1]):
                        return "%s: contextName %r on the wire, configured %r" % (where, rec["ctx_name"], top["ctx"][1])
                    want_ce = bytes.fromhex(top["ctx"][0]) or agent.engine_id
                    if rec["ctx_engine"] != want_ce:
                        return "%s: contextEngineID %s on the wire, expected %s" % (where, rec["ctx_engine"].hex(), want_ce.hex())
            elif rec["who"] != top["creds"]["community"].encode():
                return "%s: community %r on the wire, the credentials in force are %s" % (where, rec["who"], top["creds"])
        if version == 3:
            # "behaves exactly as before entering": if the request issued just BEFORE the block was entered needed no discovery,
            # the first request after the block is left needs none either (the agent never restarts in these histories).  An
            # implementation that discovers the engine before every request is as conformant as one that never repeats it.
            had_disco = any(r.get("disco") for r in seen)
            if top.pop("after_block", False) and top.get("baseline_disco") is False and had_disco:
                classes.add("rediscovery_after_block")
                return "%s: the engine was discovered AGAIN after the inner block was left (%d datagrams for one %s); the same " \
                       "request just before the block was entered needed no discovery" % (where, len(seen), kind)
            top["last_disco"] = had_disco
        return None

    def result(msg):
        nt = interesting and requests_after > 0
        if msg == "F10B":
            return Result("AuthenticationError on an authentic response with a 127-octet TLV", nt, sorted(classes),
                          known="reencoded_len_127")
        return Result(msg, nt, sorted(classes))

    all_steps = list(steps)
    # unwind whatever is still open and check the bottom configuration with a request
    all_steps += [["exit", "normal"]] * 4 + [["request", "get"]]
    for i, step in enumerate(all_steps):
        where = "step %d %r" % (i, step)
        kind = step[0]
        if kind == "configure":
            # a permanent change made inside a block belongs to that block's level
            try:
                client.configure(**kwargs(step[1]))
            except Exception as e:  # noqa
                return result("%s: configure() with valid settings raised %s: %s" % (where, type(e).__name__, e))
            model[-1] = apply(model[-1], step[1])
        elif kind == "enter":
            if len(cms) >= 4:
                continue
            if model[-1]["creds"]["v"] == "3":
                # baseline: how does a request behave at this level right now?  (at most two: the very first one discovers)
                model[-1].pop("after_block", None)
                for _ in range(2):
                    msg = do_request("get", where + " (baseline before the block)")
                    if msg:
                        return result(msg)
                    if not model[-1].get("last_disco"):
                        break
                model[-1]["baseline_disco"] = bool(model[-1].get("last_disco"))
            try:
                cm = client.reconfigure(**kwargs(step[1]))
                cm.__enter__()
            except Exception as e:  # noqa
                return result("%s: reconfigure() with valid settings raised %s: %s" % (where, type(e).__name__, e))
            cms.append(cm)
            model.append(apply(model[-1], step[1]))
            if len(cms) >= 2:
                classes.add("depth>=2")
                interesting = True
        elif kind == "exit":
            if not cms:
                continue
            cm = cms.pop()
            model.pop()
            if "baseline_disco" in model[-1]:
                model[-1]["after_block"] = True
            if step[1] == "exception":
                classes.add("exceptional_exit")
                interesting = True
                exc = _Boom("leaving the block by exception")
                try:
                    cm.__exit__(_Boom, exc, None)
                except _Boom:
                    pass
            else:
                try:
                    cm.__exit__(None, None, None)
                except Exception as e:  # noqa
                    return result("%s: leaving the block raised %s: %s" % (where, type(e).__name__, e))
        elif kind == "request":
            msg = do_request(step[1], where)
            if msg:
                return result(msg)
            if interesting or "family_switch" in classes:
                requests_after += 1
        elif kind == "bad":
            classes.add("bad_setting")
            before = client.config
            raised = False
            # the unknown setting may come together with valid ones (step[3]); the call is refused as a whole
            extra = kwargs(step[3]) if len(step) > 3 and step[3] else {}
            if extra:
                classes.add("bad_setting_with_valid_ones")
                if "credentials" in extra and CREDS[step[3]["creds"]]["v"] != model[-1]["creds"]["v"]:
                    classes.add("bad_setting_with_family_switch")
            try:
                if step[1] == "permanent":
                    client.configure(**dict(extra, **{step[2]: 1}))
                else:
                    with client.reconfigure(**dict(extra, **{step[2]: 1})):
                        pass
            except Exception:  # noqa
                raised = True
            if not raised:
                return result("%s: the unknown setting %r was accepted" % (where, step[2]))
            if client.config != before:
                return result("%s: refusing the unknown setting changed the configuration" % where)
            if extra:
                # "without changing anything": the next request still speaks as before
                msg = do_request("get", where + " then get")
                if msg:
                    return result("after the refused call: " + msg)
        else:
            raise ValueError(kind)
        if "family_switch" in classes:
            interesting = True
        msg = config_mismatch(where)
        if msg:
            return result(msg)
    return result(None)


KW = st.fixed_dictionaries({}, optional={
    "timeout": st.sampled_from([1, 2, 3, 15, 30]),
    "retries": st.sampled_from([1, 2, 3, 5, 7]),
    "creds": st.integers(0, len(CREDS) - 1),
    "ctx": st.sampled_from([["", ""], ["", "6374782d31"], ["80001f8804637478", "6f74686572"], ["", "62"]]),
}).filter(lambda d: len(d) > 0)

STEP = st.one_of(
    st.tuples(st.just("configure"), KW).map(list),
    st.tuples(st.just("enter"), KW).map(list),
    st.tuples(st.just("enter"), KW).map(list),
    st.tuples(st.just("exit"), st.sampled_from(["normal", "exception"])).map(list),
    st.tuples(st.just("exit"), st.sampled_from(["normal", "exception"])).map(list),
    st.tuples(st.just("request"), st.sampled_from(["get", "get", "set", "walk"])).map(list),
    st.tuples(st.just("request"), st.sampled_from(["get", "get", "set", "walk"])).map(list),
    st.tuples(st.just("bad"), st.sampled_from(["permanent", "temporary"]),
              st.sampled_from(["timeout_s", "retry", "community", "foo", "Timeout"])).map(list),
    st.tuples(st.just("bad"), st.sampled_from(["permanent", "temporary"]),
              st.sampled_from(["timeout_s", "retry", "community", "foo", "Timeout", "timeuot"]), KW).map(list),
)


@st.composite
def cases(draw, max_steps=25):
    return dict(init=draw(st.sampled_from(CREDS)), steps=draw(st.lists(STEP, min_size=3, max_size=max_steps)))


def units(tier, seed):
    n, m = (200, 25) if tier == "quick" else (2500, 50)
    return [Unit("hyp-%d" % sh, hypothesis_unit, strategy=cases(max_steps=m), examples=n, seed=shard_seed(seed, sh),
                 label="hyp-%d" % sh) for sh in range(16)]
