"""C12 -- discovery happens first and timeliness is kept for the client's
whole life.  DESIGN.md section 3, C12."""
from __future__ import annotations

from hypothesis import strategies as st

import vagent
import vber
import vclock
import vworld
from puresnmp.exc import InvalidResponseId, SnmpError
from vrunner import Result, Unit, hypothesis_unit, shard_seed

ID = "C12"
LEVEL = "exploration"
TECHNIQUE = ("model-based stateful testing (Hypothesis-generated histories, shrunk as one value) on ONE virtual time line that "
             "drives the agent's engine clock and every clock source the client could consult (time.time, time.monotonic, "
             "perf_counter and therefore loop.time): request / advance(dt) / reboot steps; oracle = discovery first, discovered "
             "engine id used, foreign discovery msgID refused, no untimely message on the wire except the first after a restart of the engine, and every request the model expects to succeed succeeds")
RULE = ("case = security level {noAuthNoPriv, authNoPriv MD5/SHA-1, authPriv} x agent engine id of 5..32 octets x optional configured context engine id x discovery "
        "reply variant {conformant, foreign msgID (+1, -1, random), no bindings, Response instead of Report} x history of 2..30 "
        "steps from {request(get | getnext | set | walk, optionally inside a reconfigure block), advance(dt in 1, 30, 149, 151, 3600, 86400 x k), reboot, poll(n in 120..400 requests spaced 0.4..1.3 s)}, discovery Report optionally naming another context engine, usmStats counters starting anywhere in Counter32 (the Report may carry 0); non-trivial = "
        ">= 2 requests separated by an advance, or a reboot between requests, or a non-conformant discovery reply; distinct = "
        "SHA-1 of canonical JSON case")
ASSUMPTIONS = [
    "only API outcomes and datagrams are judged: how the client keeps its notion of engine boots / time is its own business, but (the statement's words) what it SENDS stays within the window -- the one excusable untimely message is the first after a restart of the engine, which no client can foresee; recovering from it by resynchronisation or re-discovery are both fine",
    "the agent keeps a 150 s window (RFC 3414 3.2 7b) on engine boots and time; boots change on reboot and engine time restarts at 0",
    "after a refused discovery reply the client must still be usable: the next request starts with a new probe",
]
_REQUIRED_BASE = {"advance>150": 0.18, "reboot": 0.15, "disco_bad": 0.06, "auth": 0.3, "poller": 0.009, "disco_other_ctx": 0.03}   # (60 % of the fractions first required: room for seed-to-seed variation)
# generator health of the newer case families (quick tier: the thorough tier dilutes them with enumerated units)
_REQUIRED_QUICK = {"request_inside_reconfigure": 0.09, "disco_counter_zero": 0.048}   # (60 % of the fractions first required: room for seed-to-seed variation)


def REQUIRED_CLASSES(tier):
    return dict(_REQUIRED_BASE, **(_REQUIRED_QUICK if tier == "quick" else {}))

SCALAR = (1, 3, 6, 1, 2, 1, 1, 5, 0)
COL = (1, 3, 6, 1, 2, 1, 2, 2, 1, 2)
DB = {SCALAR: (vber.T_OCTETS, b"name"), COL + (1,): (vber.T_OCTETS, b"lo"), COL + (2,): (vber.T_OCTETS, b"eth0")}
WANT = {"get": ("OctetString", b"name"), "set": ("OctetString", b"name"), "getnext": (COL + (1,), "OctetString", b"lo"),
        "walk": [(COL + (1,), "OctetString", b"lo"), (COL + (2,), "OctetString", b"eth0")]}


async def _req(client, op, inside=False):
    if inside:
        # the request is issued inside a temporary override (a per-request timeout): what the client learns about the
        # engine meanwhile must not be forgotten when the block is left
        with client.reconfigure(timeout=7):
            return await _req(client, op)
    O = vworld.OID
    if op == "get":
        return vworld.observe(await client.get(O(SCALAR)))
    if op == "set":
        return vworld.observe(await client.set(O(SCALAR), vworld.make_value(vber.T_OCTETS, b"name")))
    if op == "getnext":
        return vworld.observe_vb(await client.getnext(O(COL)))
    return [vworld.observe_vb(vb) async for vb in client.walk(O(COL))]


def run_case(case, exclude_known=True) -> Result:
    proto = dict(case["proto"])
    if case.get("ctx_engine"):
        proto["ctx_engine"] = case["ctx_engine"]
    if case.get("engine_id"):
        proto["engine_id"] = case["engine_id"]       # the agent's snmpEngineID: any 5..32 octets
    level_auth = bool(proto.get("algo"))
    classes = {vworld.proto_label(proto)}
    if level_auth:
        classes.add("auth")
    disco = case.get("disco", {"kind": "ok"})
    if disco["kind"] == "ok_other_ctx":
        classes.add("disco_other_ctx")
    elif disco["kind"] != "ok":
        classes.add("disco_bad")
    st8 = dict(disco_replies=0, rebooted_since_disco=False, bad_disco_done=False)

    def mangle(agent, req, resp):
        if not req.get("discovery"):
            return resp
        st8["disco_replies"] += 1
        st8["rebooted_since_disco"] = False
        if disco["kind"] == "ok_other_ctx":
            # conformant, but the Report's scoped PDU names another context engine (proxy style)
            m = vber.parse_message(resp)
            body = vber.enc_scoped_pdu(b"\x80\x00\x1f\x88\x04some-other-context", b"",
                                       vber.enc_pdu(vber.PDU_REPORT, m["pdu"]["rid"], 0, 0, m["pdu"]["vbs"]))
            return agent.build_v3(m["msg_id"], 0, b"", body)
        if disco["kind"] == "ok" or st8["bad_disco_done"]:
            return resp
        st8["bad_disco_done"] = True
        m = vber.parse_message(resp)
        rid = m["pdu"]["rid"]
        if disco["kind"] == "msgid":
            body = vber.enc_scoped_pdu(m["ctx_engine"], m["ctx_name"], vber.enc_pdu(vber.PDU_REPORT, rid, 0, 0, m["pdu"]["vbs"]))
            return agent.build_v3(m["msg_id"] + disco["delta"], 0, b"", body)
        if disco["kind"] == "novb":
            body = vber.enc_scoped_pdu(m["ctx_engine"], m["ctx_name"], vber.enc_pdu(vber.PDU_REPORT, rid, 0, 0, []))
            return agent.build_v3(m["msg_id"], 0, b"", body)
        if disco["kind"] == "response":
            body = vber.enc_scoped_pdu(m["ctx_engine"], m["ctx_name"], vber.enc_pdu(vber.PDU_RESPONSE, rid, 0, 0, []))
            return agent.build_v3(m["msg_id"], 0, b"", body)
        raise ValueError(disco)

    nreq = 0
    adv_between = False
    since_last_req = 0.0
    reboot_between = False
    nontrivial = disco["kind"] not in ("ok",)
    with vclock.virtual(case.get("start", 1_700_000_000)) as vt:
        agent, client = vworld.make_world(proto, dict(DB), request_cap=5000)
        agent.mangle = mangle
        agent.counter_base = case.get("counter_base", 0)
        if (agent.counter_base + 1) % 2 ** 32 == 0:
            classes.add("disco_counter_zero")
        reboot_pending = False     # the engine restarted and the client cannot know yet
        head = "%s%s" % (vworld.proto_label(proto), " ctx-engine=%s" % case["ctx_engine"] if case.get("ctx_engine") else "")
        steps = []
        for st_ in case["steps"]:
            if st_[0] == "poll":
                # a poller: n requests spaced by a non-whole number of seconds
                classes.add("poller")
                for _ in range(st_[1]):
                    steps += [["req", "get"], ["adv", st_[2]]]
            else:
                steps.append(st_)
        steps.append(["req", "get"])
        for i, step in enumerate(steps):
            where = "%s step %d %r" % (head, i, step)
            if step[0] == "adv":
                vt.advance(step[1])
                agent.clock.advance(step[1])
                since_last_req += step[1]
                if step[1] > 150:
                    classes.add("advance>150")
                continue
            if step[0] == "reboot":
                agent.reboot()
                reboot_pending = True
                st8["rebooted_since_disco"] = True
                reboot_between = True
                classes.add("reboot")
                continue
            op = step[1]
            log0 = len(agent.log)
            expect_bad_disco = disco["kind"] not in ("ok", "ok_other_ctx") and not st8["bad_disco_done"]
            exc = res = None
            try:
                res = vworld.run(_req(client, op, inside=len(step) > 2 and step[2] == "inside"))
                if len(step) > 2:
                    classes.add("request_inside_reconfigure")
            except vagent.AgentInternalError as e:
                return Result("%s: the client sent something the reference agent cannot handle: %s" % (where, e), nontrivial, sorted(classes))
            except vagent.CapExceeded:
                return Result("%s: more than 5000 datagrams" % where, nontrivial, sorted(classes))
            except Exception as e:  # noqa
                exc = e
            new = agent.log[log0:]
            if nreq and (since_last_req > 0 or reboot_between):
                nontrivial = True
            nreq += 1
            since_last_req = 0.0
            cls = sorted(classes)
            if exc is not None and vworld.f10b_excusable(agent, exc):
                return Result("AuthenticationError on an authentic response with a 127-octet TLV", nontrivial, cls,
                              known="reencoded_len_127")
            # -- discovery comes first ---------------------------------------
            if log0 == 0:
                if not new or not new[0].get("discovery"):
                    return Result("%s: the first datagram of a new client is not a discovery probe: %s" % (
                        where, new[0]["raw"].hex() if new else "nothing sent"), nontrivial, cls)
                p = new[0]
                if p["flags"] != 0x04 or p["user"] or p["digest"] or p["salt"] or p["pdu"]["vbs"]:
                    return Result("%s: malformed discovery probe %s" % (where, p["raw"].hex()), nontrivial, cls)
            if expect_bad_disco:
                # the (first) discovery reply was not conformant
                later = [r for r in new if not r.get("discovery")]
                if disco["kind"] == "msgid":
                    if not isinstance(exc, InvalidResponseId):
                        return Result("%s: a discovery reply with a foreign msgID (%+d) did not raise InvalidResponseId (got %r)" % (
                            where, disco["delta"], exc if exc else res), nontrivial, cls)
                    if later:
                        return Result("%s: a request was sent although the discovery reply carried a foreign msgID" % where, nontrivial, cls)
                elif exc is None:
                    if later and any(r["engine_id"] != agent.engine_id for r in later):
                        return Result("%s: requests use an engine id that was never discovered" % where, nontrivial, cls)
                    if res != WANT[op]:
                        return Result("%s: returned %r after a malformed discovery reply" % (where, res), nontrivial, cls)
                elif not isinstance(exc, (SnmpError, TypeError, ValueError, IndexError, AttributeError)):
                    return Result("%s: malformed discovery reply raised %s: %s" % (where, type(exc).__name__, exc), nontrivial, cls)
                continue
            # -- requests carry the discovered engine id and are timely ----------------------
            for r in new:
                if r.get("discovery"):
                    reboot_pending = False
                    continue
                if r.get("verdict") == "notInTimeWindow":
                    # the only excusable untimely message is the first one after a restart of the engine
                    if not reboot_pending:
                        return Result("%s: the client sent engine boots/time %s/%s, the agent is at %d/%d and has not restarted since "
                                      "the client last learned them" % (where, r["boots"], r["time"], agent.boots, agent.engine_time()),
                                      nontrivial, cls)
                    reboot_pending = False
                if r["engine_id"] != agent.engine_id:
                    return Result("%s: msgAuthoritativeEngineID %s, discovered %s" % (where, r["engine_id"].hex(), agent.engine_id.hex()),
                                  nontrivial, cls)
                want_ce = bytes.fromhex(case.get("ctx_engine", "")) or agent.engine_id
                if "ctx_engine" in r and r["ctx_engine"] != want_ce:
                    return Result("%s: contextEngineID %s, expected %s" % (where, r["ctx_engine"].hex(), want_ce.hex()), nontrivial, cls)
            if not any(r.get("discovery") for r in agent.log):
                return Result("%s: no discovery before the first request" % where, nontrivial, cls)
            # -- the request succeeds ---------------------------------------------
            if exc is not None:
                msg = "%s: the request failed %d s (agent time) after the previous one: %s: %s; agent boots/time now %d/%d, last request carried %s" % (
                    where, 0, type(exc).__name__, exc, agent.boots, agent.engine_time(),
                    [(r["boots"], r["time"]) for r in new if not r.get("discovery")][-1:])
                if (level_auth and st8["rebooted_since_disco"] and isinstance(exc, SnmpError)
                        and "time window" in str(exc).lower() and exclude_known):
                    return Result(msg, nontrivial, cls, known="stale_boots_after_reboot")
                return Result(msg, nontrivial, cls)
            if res != WANT[op]:
                return Result("%s: returned %r, expected %r" % (where, res, WANT[op]), nontrivial, cls)
            reboot_between = False
    return Result(None, nontrivial and nreq >= 2, sorted(classes))


def replay_known(case) -> Result:
    return run_case(case, exclude_known=False)


STEP = st.one_of(
    st.tuples(st.just("req"), st.sampled_from(["get", "get", "getnext", "set", "walk"])).map(list),
    st.tuples(st.just("req"), st.sampled_from(["get", "set", "walk"]), st.just("inside")).map(list),
    st.tuples(st.just("req"), st.sampled_from(["get", "get", "getnext", "set", "walk"])).map(list),
    st.tuples(st.just("adv"), st.one_of(st.sampled_from([1, 30, 149, 150, 151, 152, 300, 3600, 86400]),
                                        st.integers(1, 30).map(lambda k: 86400 * k), st.integers(1, 400))).map(list),
    st.tuples(st.just("adv"), st.sampled_from([149, 151, 3600])).map(list),
    st.just(["reboot"]),
)


@st.composite
def cases(draw, max_steps=12):
    proto = draw(st.sampled_from(vworld.V3_PROTOS + vworld.V3_PROTOS[1:]))
    steps = draw(st.lists(STEP, min_size=2, max_size=max_steps))
    if draw(st.integers(0, 19)) == 0:
        n, dt = draw(st.sampled_from([(330, 0.5), (200, 0.9), (140, 1.3)]))
        steps = steps[:3] + [["poll", n, dt]] + steps[3:5]
        if proto.get("priv_pw"):
            # (puresnmp derives the privacy key anew for every encrypted message, 1 MiB of hashing each: pollers use auth only)
            proto = vworld.V3_PROTOS[1] if proto["algo"] == "md5" else vworld.V3_PROTOS[2]
    case = dict(proto=proto, steps=steps,
                start=draw(st.sampled_from([1_700_000_000, 1_700_000_000.75, 5, 2 ** 31 - 10 ** 8])))
    if draw(st.integers(0, 4)) == 0:
        case["ctx_engine"] = draw(st.sampled_from([b"\x80\x00\x1f\x88\x04other-ctx", b"\x80\x00\x00\x09\x05" + b"\x00" * 12])).hex()
    if draw(st.integers(0, 3)) == 0:
        case["engine_id"] = draw(st.sampled_from([b"12345", b"\xff" * 32, b"\x80\x00\x1f\x88\x04" + b"e" * 27,
                                                  b"\x80\x00\x00\x09\x05" + b"\x00" * 12, b"\x00" * 5])).hex()
    if draw(st.integers(0, 2)) == 0:
        # the agent's usmStats counters did not start at zero: the discovery Report may carry any Counter32 value, 0 included
        case["counter_base"] = draw(st.sampled_from([2 ** 32 - 1, 2 ** 32 - 1, 2 ** 32 - 2, 41, 2 ** 31 - 1, 2 ** 31]))
    k = draw(st.sampled_from(["ok", "ok", "ok", "ok_other_ctx", "msgid", "msgid", "novb", "response"]))
    case["disco"] = dict(kind=k)
    if k == "msgid":
        case["disco"]["delta"] = draw(st.sampled_from([1, -1, 4711, -99999, 2 ** 32, -2 ** 32, 3 * 2 ** 32, 2 ** 40]))
    return case


def units(tier, seed):
    n, m = (100, 12) if tier == "quick" else (1200, 30)
    return [Unit("hyp-%d" % sh, hypothesis_unit, strategy=cases(max_steps=m), examples=n, seed=shard_seed(seed, sh),
                 label="hyp-%d" % sh) for sh in range(16)]
