"""C07 -- only the response to the request actually sent is ever returned.
DESIGN.md section 3, C07."""
from __future__ import annotations

from hypothesis import strategies as st

import vagent
import vber
import vclock
import vworld
from puresnmp.exc import InvalidResponseId, SnmpError
from vrunner import Result, Unit, hypothesis_unit, shard_seed

ID = "C07"
LEVEL = "exploration"
TECHNIQUE = ("property-based testing (Hypothesis) with an adversarial stepping wall clock installed before puresnmp is "
             "imported: every clock read returns the next element of a generated schedule; the agent echoes or perturbs "
             "the request-id / msgID / community / version of one chosen response; two-directional oracle")
RULE = ("case = operation {get, multiget, getnext, multigetnext, set, multiset, bulkget, walk, multiwalk, bulkwalk, table, "
        "bulktable} x clock schedule (start over 0 .. 2^32+3 including values at and across 2^31 and 2^32, increments from {0, 0.3, 0.999, 1, 1.5, 60} per read) x protocol "
        "{v1, v2c, v3 x 3 levels} x perturbation {none, id+1, id-1, id 0, random id, the previous request's id, other "
        "community, empty community, near-miss community (configured one with an extra / changed octet, also >= 0x80), other version number, discovery msgID} applied to the k-th response x optional history "
        "(warm-up exchange under other credentials, then configure) x walks in strict and lenient (errors=warn) mode x optionally the same read operation twice in flight on the client (echo direction); non-trivial = the clock advances by >= 1 s between two "
        "reads inside the operation, or the response id differs from the request id; distinct = SHA-1 of canonical JSON case")
ASSUMPTIONS = [
    "nothing is assumed about how request ids are derived; the clock is only an adversarial environment",
    "a perturbed id that happens to equal the id of the request actually sent counts as an echo",
    "for SNMPv3 data responses only the PDU request-id is required to match (the statement does not mention msgID there); "
    "for the discovery reply the msgID must match",
    "any SnmpError subclass counts as refusal of a foreign community / version",
]
_REQUIRED_BASE = {"perturbed": 0.21, "clock_steps": 0.24, "v3": 0.09, "walk_op": 0.15, "history": 0.03}   # (60 % of the fractions first required: room for seed-to-seed variation)
# generator health of the newer case families (quick tier: the thorough tier dilutes them with enumerated units)
_REQUIRED_QUICK = {"agent_reboots": 0.006}   # (60 % of the fractions first required: room for seed-to-seed variation)


def REQUIRED_CLASSES(tier):
    return dict(_REQUIRED_BASE, **(_REQUIRED_QUICK if tier == "quick" else {}))

TBL = (1, 3, 6, 1, 4, 1, 55, 2)
DB = {(1, 3, 6, 1, 4, 1, 55, 1, 0): (vber.T_OCTETS, b"scalar")}
for _c in (1, 2):
    for _r in (1, 2, 3):
        DB[TBL + (1, _c, _r)] = (vber.T_INT, bytes([_c * 16 + _r]))
DB[(1, 3, 6, 1, 4, 1, 55, 3, 0)] = (vber.T_GAUGE, b"\x09")
SCALAR = (1, 3, 6, 1, 4, 1, 55, 1, 0)
COL1, COL2 = TBL + (1, 1), TBL + (1, 2)
WALKS = {"walk", "multiwalk", "bulkwalk", "table", "bulktable"}


def _below(root):
    return [(o,) + vber.typed_value(*DB[o]) for o in sorted(DB) if o[:len(root)] == root and len(o) > len(root)]


def expected(op):
    tv = lambda o: vber.typed_value(*DB[o])
    if op == "get":
        return tv(SCALAR)
    if op == "multiget":
        return [tv(SCALAR), tv(COL1 + (1,)), tv(COL2 + (2,))]
    if op == "getnext":
        return (COL1 + (1,),) + tv(COL1 + (1,))
    if op == "multigetnext":
        return [(COL1 + (1,),) + tv(COL1 + (1,)), (COL2 + (2,),) + tv(COL2 + (2,))]
    if op == "walk":
        return _below(COL1)
    if op in ("multiwalk", "bulkwalk"):
        return sorted(_below(COL1) + _below(COL2))
    if op in ("table", "bulktable"):
        return sorted(["1", "2", "3"])
    if op == "set":
        return ("OctetString", b"new")
    if op == "multiset":
        return {SCALAR: ("OctetString", b"new"), COL1 + (1,): ("Integer", 5)}
    if op == "bulkget":
        return ({SCALAR: tv(SCALAR)}, [(COL1 + (1,),) + tv(COL1 + (1,)), (COL1 + (2,),) + tv(COL1 + (2,))])
    raise ValueError(op)


def run_case(case) -> Result:
    proto = case["proto"]
    op = case["op"]
    pert = case.get("perturb", {"kind": "none"})
    version = {"1": 0, "2c": 1, "3": 3}[proto["v"]]
    classes = {"op=" + op, vworld.proto_label(proto), "perturb=" + pert["kind"]}
    if version == 3:
        classes.add("v3")
    if op in WALKS:
        classes.add("walk_op")
    if case.get("errors") == "warn":
        classes.add("lenient_walk")
    if pert["kind"] != "none":
        classes.add("perturbed")
    via = case.get("via")
    if via:
        classes.add("history")
    st8 = dict(count=0, applied=False, effective=False, rids=[], after_disco_fail=0)

    users = [vworld.agent_user(proto)] if version == 3 else []
    if via and via["v"] == "3":
        users.append(vworld.agent_user(via))
    agent = vagent.Agent(dict(DB), community=proto.get("community", "public").encode("ascii"),
                         users=users, request_cap=60)
    k = pert.get("at", 0)

    def hook(agent, req):
        if st8.get("warmup"):
            return None
        pdu = req["pdu"]
        i = st8["count"]
        st8["count"] += 1
        st8["rids"].append(pdu["rid"])
        if case.get("reboot_at") is not None and i == case["reboot_at"] and not st8.get("rebooted"):
            # the agent restarts after answering this request: the next one is answered with an authenticated
            # notInTimeWindow report, the client discovers the engine again and repeats its request
            st8["rebooted"] = True
            agent.reboot()
            classes.add("agent_reboots")
        kind = pert["kind"]
        if kind in ("none", "disco_msgid") or i != k:
            return None
        es, ei, vbs = agent.answer(version, pdu)
        rid = pdu["rid"]
        comm = None
        ver = version
        if kind == "id+1":
            rid += 1
        elif kind == "id-1":
            rid -= 1
        elif kind == "id0":
            rid = 0
        elif kind == "id+2^32":
            rid += 2 ** 32
        elif kind == "id-2^32":
            rid -= 2 ** 32
        elif kind == "id+k*2^32":
            rid += pert["value"] * 2 ** 32
        elif kind == "idrand":
            rid = pert["value"]
        elif kind == "idprev":
            rid = st8["rids"][-2] if len(st8["rids"]) >= 2 else pdu["rid"] - 7
        elif kind == "community_other":
            # with a history the attacker replays the community the client used before
            comm = via.get("community", "public").encode("ascii") if via and via["v"] != "3" else b"someone-else"
        elif kind == "community_empty":
            comm = b""
        elif kind == "community_variant":
            # a byte string that differs from the configured community only slightly
            c = agent.community
            comm = {"ff_suffix": c + b"\xff", "80_prefix": b"\x80" + c, "utf8_inside": c[:3] + b"\xc3\xa9" + c[3:],
                    "upper": c.upper(), "space_suffix": c + b" ", "nul_suffix": c + b"\x00", "shorter": c[:-1],
                    "doubled": c * 2, "space_prefix": b" " + c, "high_bit": bytes([c[0] | 0x80]) + c[1:]}[pert["how"]]
        elif kind == "version_other":
            ver = 1 - version
        st8["applied"] = True
        st8["effective"] = (rid != pdu["rid"]) or comm is not None or ver != version
        if comm is not None and comm == agent.community:
            st8["effective"] = rid != pdu["rid"]
        if version == 3:
            return agent.v3_response(req, agent.users[req["user"]], es, ei, vbs, rid=rid)
        return vber.enc_community_message(ver, agent.community if comm is None else comm,
                                          vber.enc_pdu(vber.PDU_RESPONSE, rid, es, ei, vbs))

    def mangle(agent, req, resp):
        # discovery reply with a foreign msgID
        if pert["kind"] == "disco_msgid" and req.get("discovery") and not st8.get("warmup"):
            st8["applied"] = True
            st8["effective"] = True
            st8["disco_at"] = len(agent.log)
            m = vber.parse_message(resp)
            body = vber.enc_scoped_pdu(m["ctx_engine"], m["ctx_name"],
                                       vber.enc_pdu(m["pdu"]["tag"], m["pdu"]["rid"], 0, 0, m["pdu"]["vbs"]))
            return agent.build_v3(m["msg_id"] + pert.get("delta", 1), 0, b"", body)
        return resp

    agent.respond_hook = hook
    agent.mangle = mangle
    async def yielding_sender(endpoint, data, timeout=None, retries=None, loop=None):
        # gives other tasks of the loop a turn between sending and receiving, as a real socket would
        import asyncio

        await asyncio.sleep(0)
        resp = agent.handle_or_timeout(bytes(data), timeout=timeout, retries=retries)
        await asyncio.sleep(0)
        return resp

    twice = case.get("twice", False) and pert["kind"] == "none" and op not in ("set", "multiset")
    if twice:
        classes.add("two_in_flight")
    client = vworld.Client("192.0.2.1", vworld.creds(via or proto), sender=yielding_sender if twice else agent)
    O = vworld.OID
    got = []

    async def drain(agen):
        async for vb in agen:
            got.append(vworld.observe_vb(vb))
        return None

    async def go():
        if via:
            # history: one complete exchange under the earlier credentials, then a permanent re-configuration
            st8["warmup"] = True
            old = agent.community
            if via["v"] != "3":
                agent.community = via.get("community", "public").encode("ascii")
            try:
                await client.get(O(SCALAR))
            finally:
                agent.community = old
                st8["warmup"] = False
            client.configure(credentials=vworld.creds(proto))
        if twice:
            # the same read operation twice at the same time on this client (the clock steps between their id reads);
            # the first result is judged below, the second must be equal
            import asyncio

            if op == "get":
                a, b = await asyncio.gather(client.get(O(SCALAR)), client.get(O(SCALAR)))
            elif op == "multiget":
                a, b = await asyncio.gather(client.multiget([O(SCALAR), O(COL1 + (1,)), O(COL2 + (2,))]),
                                            client.multiget([O(SCALAR), O(COL1 + (1,)), O(COL2 + (2,))]))
            elif op == "getnext":
                a, b = await asyncio.gather(client.getnext(O(COL1)), client.getnext(O(COL1)))
            else:
                a = b = None
            if a is not None:
                if vworld.observe(a) != vworld.observe(b) if op == "get" else repr(a) != repr(b):
                    raise AssertionError("two identical concurrent operations returned %r and %r" % (a, b))
                return a
        if op == "get":
            return await client.get(O(SCALAR))
        if op == "multiget":
            return await client.multiget([O(SCALAR), O(COL1 + (1,)), O(COL2 + (2,))])
        if op == "getnext":
            return await client.getnext(O(COL1))
        if op == "multigetnext":
            return await client.multigetnext([O(COL1), O(COL2 + (1,))])
        if op == "walk":
            return await drain(client.walk(O(COL1), errors=case.get("errors", "strict")))
        if op == "multiwalk":
            return await drain(client.multiwalk([O(COL2), O(COL1)], errors=case.get("errors", "strict")))
        if op == "bulkwalk":
            return await drain(client.bulkwalk([O(COL1), O(COL2)], bulk_size=case.get("bulk", 2)))
        if op == "table":
            return await client.table(O(TBL + (1,)))
        if op == "bulktable":
            return await client.bulktable(O(TBL), bulk_size=case.get("bulk", 2))
        if op == "set":
            return await client.set(O(SCALAR), vworld.make_value(vber.T_OCTETS, b"new"))
        if op == "multiset":
            return await client.multiset({O(SCALAR): vworld.make_value(vber.T_OCTETS, b"new"),
                                          O(COL1 + (1,)): vworld.make_value(vber.T_INT, b"\x05")})
        if op == "bulkget":
            return await client.bulkget([O(SCALAR[:-1])], [O(COL1)], max_list_size=2)
        raise ValueError(op)

    exc = res = None
    clk = vclock.fixed(case["clock"], case["inc"])
    with clk:
        try:
            res = vworld.run(go())
        except vagent.AgentInternalError as e:
            return Result("client sent something the reference agent cannot handle: %s" % e, False, sorted(classes))
        except vagent.CapExceeded:
            return Result("%s sent more than 60 requests" % op, True, sorted(classes))
        except Exception as e:  # noqa
            exc = e
        reads = vclock.reads
    # classified by the generated schedule alone (an implementation need not consult the wall clock at all)
    stepped = any(x >= 1 for x in case["inc"]) or sum(case["inc"]) >= 1
    if stepped:
        classes.add("clock_steps")
    nontrivial = bool(stepped or st8["effective"])
    cls = sorted(classes)
    if exc is not None and vworld.f10b_excusable(agent, exc):
        return Result("AuthenticationError on an authentic response with a 127-octet TLV", nontrivial, cls,
                      known="reencoded_len_127")
    head = "%s %s clock=%r+%r perturb=%r" % (vworld.proto_label(proto), op, case["clock"], case["inc"][:6], pert)

    def bad(msg):
        return Result("%s: %s" % (head, msg), nontrivial, cls)

    def edesc():
        return "%s: %s" % (type(exc).__name__, exc)

    if st8["applied"] and st8["effective"]:
        kind = pert["kind"]
        if kind in ("community_other", "community_empty", "community_variant", "version_other"):
            if not isinstance(exc, SnmpError):
                return bad("a response with a foreign community / version was not refused with SnmpError (got %s)" % (
                    edesc() if exc else repr(res if res is not None else got)))
        else:
            if not isinstance(exc, InvalidResponseId):
                return bad("a response whose id differs from the request's did not raise InvalidResponseId (got %s)" % (
                    edesc() if exc else repr(res if res is not None else got)))
            if kind == "disco_msgid":
                later = [r for r in agent.log[st8["disco_at"]:] if not r.get("discovery")]
                if later:
                    return bad("a request was sent after the discovery reply with a foreign msgID")
        # whatever was delivered before the bad response must be genuine
        for g in got:
            if g[0] not in DB or g[1:] != vber.typed_value(*DB[g[0]]):
                return bad("delivered %r which the agent does not hold" % (g,))
        return Result(None, nontrivial, cls)

    # echoing agent (or a perturbation that never fired / was not effective): the call must succeed
    if exc is not None:
        return bad("a conformant agent echoed every id but the call raised %s (request ids seen: %s)" % (edesc(), st8["rids"][-4:]))
    want = expected(op)
    if op in ("walk", "multiwalk", "bulkwalk"):
        have = got if op == "walk" else sorted(got)
    elif op in ("table", "bulktable"):
        have = sorted(r["0"] for r in res)
    elif op == "get":
        have = vworld.observe(res)
    elif op == "multiget":
        have = [vworld.observe(v) for v in res]
    elif op == "getnext":
        have = vworld.observe_vb(res)
    elif op == "multigetnext":
        have = [vworld.observe_vb(v) for v in res]
    elif op == "set":
        have = vworld.observe(res)
    elif op == "multiset":
        have = {vworld.oid_tuple(k2): vworld.observe(v) for k2, v in res.items()}
    elif op == "bulkget":
        have = ({vworld.oid_tuple(k2): vworld.observe(v) for k2, v in res.scalars.items()},
                [(vworld.oid_tuple(k2),) + vworld.observe(v) for k2, v in res.listing.items()])
    if have != want:
        return bad("returned %r, expected %r" % (have, want))
    return Result(None, nontrivial, cls, observations={"max_clock_reads": reads})


INCS = st.lists(st.sampled_from([0, 0, 0.3, 0.999, 1, 1, 1.5, 60]), min_size=1, max_size=8)


@st.composite
def cases(draw):
    proto = draw(st.sampled_from([vworld.V1_PROTO] + [vworld.V2C_PROTO] * 4 + vworld.V3_PROTOS))
    ops = ["get", "multiget", "getnext", "multigetnext", "set", "multiset", "walk", "multiwalk", "table"]
    if proto["v"] != "1":
        ops += ["bulkget", "bulkwalk", "bulktable"]
    op = draw(st.sampled_from(ops))
    kinds = ["none", "none", "none", "id+1", "id-1", "id0", "idrand", "idprev", "id+2^32", "id-2^32", "id+k*2^32"]
    if proto["v"] != "3":
        kinds += ["community_other", "community_empty", "community_variant", "community_variant", "version_other"]
    else:
        kinds += ["disco_msgid", "disco_msgid"]
    kind = draw(st.sampled_from(kinds))
    pert = dict(kind=kind)
    if kind not in ("none", "disco_msgid"):
        pert["at"] = draw(st.integers(0, 3)) if op in WALKS else 0
    if kind == "idrand":
        pert["value"] = draw(st.one_of(st.integers(-2 ** 31, 2 ** 31 - 1), st.integers(-2 ** 63, 2 ** 63 - 1)))
    if kind == "id+k*2^32":
        pert["value"] = draw(st.sampled_from([2, 3, -2, 255, 2 ** 20, 2 ** 31]))
    if kind == "community_variant":
        pert["how"] = draw(st.sampled_from(["ff_suffix", "80_prefix", "utf8_inside", "upper", "space_suffix", "nul_suffix", "shorter",
                                            "doubled", "space_prefix", "high_bit"]))
    if kind == "disco_msgid":
        pert["delta"] = draw(st.sampled_from([1, -1, 4711, 2 ** 32, -2 ** 32, 2 ** 33]))
    case = dict(proto=proto, op=op, perturb=pert,
                clock=draw(st.one_of(st.sampled_from([0, 0.25, 0.999, 1, 5, 1_700_000_000, 1_700_000_000.5, 1_700_000_000.999, 2 ** 31 - 100,
                                                      2 ** 31 - 1, 2 ** 31, 2 ** 31 + 0.5, 2 ** 31 + 5, 2 ** 32 - 1, 2 ** 32 + 3]),
                                     st.floats(1, 2 ** 31 - 1000, allow_nan=False))),
                inc=draw(INCS), bulk=draw(st.sampled_from([1, 2, 3, 10])))
    if kind == "none" and draw(st.integers(0, 3)) == 0:
        case["twice"] = True
    elif kind == "none" and proto["v"] == "3" and proto.get("algo") and draw(st.integers(0, 1)) == 0:
        case["reboot_at"] = draw(st.integers(0, 2))
    if op in ("walk", "multiwalk") and draw(st.booleans()):
        # lenient walks tolerate a faulty AGENT; a response that is not the answer to the request is something else
        case["errors"] = "warn"
    if draw(st.integers(0, 7)) == 0:
        # history: a complete exchange under other credentials first (same or other family), then configure()
        if proto["v"] == "3":
            via = draw(st.sampled_from([vworld.V2C_PROTO, vworld.V3_PROTOS[0]]))
        else:
            via = draw(st.sampled_from([{"v": proto["v"], "community": "previous"}, {"v": proto["v"], "community": "previous"},
                                        vworld.V1_PROTO if proto["v"] == "2c" else vworld.V2C_PROTO]))
        if via != proto:
            case["via"] = via
            if kind == "community_other" and via["v"] != "3":
                # the attacker answers with the community the client used before
                case["perturb"] = dict(pert, kind="community_other")
    return case


def units(tier, seed):
    n = 200 if tier == "quick" else 6000
    return [Unit("hyp-%d" % sh, hypothesis_unit, strategy=cases(), examples=n, seed=shard_seed(seed, sh),
                 label="hyp-%d" % sh) for sh in range(16)]
