"""C14 -- concurrent operations on a shared client do not disturb one another.
DESIGN.md section 3, C14."""
from __future__ import annotations

import asyncio
import contextvars
import itertools

from hypothesis import strategies as st

import vagent
import vber
import vclock
import vworld
from puresnmp.exc import Timeout
from vrunner import Result, Stats, Unit, hypothesis_unit, shard_seed

ID = "C14"
LEVEL = "exploration"
TECHNIQUE = ("schedule enumeration at the sender seam (the only place where the client yields to the event loop): every request "
             "parks on a future and a driver releases, answers or drops pending requests -- or restarts the engine, or lets the agent "
             "answer now and delivers that answer later -- one step at a time following a choice sequence; DFS enumerates ALL schedules for small operation sets, Hypothesis draws choice sequences for larger ones; "
             "oracle = each operation's outcome equals its outcome when run alone on a fresh client and agent")
RULE = ("case = 2..6 operations from {get, multiget, getnext, walk, bulkwalk, table, set, a get the agent refuses with an error-status and no bindings} on one client or spread over two clients (talking to one engine, or to two engines behind one address on different ports) "
        "of one loop x protocol {v2c, SNMPv3 authPriv / authNoPriv, first use concurrent} x a stepping wall clock (request ids "
        "differ between operations) x schedule = sequence of (pending request, answer | drop) choices with <= 1 (DFS) or <= 2 "
        "dropped datagrams per operation, optionally one restart of the engine and answers computed early but delivered late (the sender honours the retries it is handed, as send_udp does); non-trivial = >= 2 "
        "operations have requests pending at the same time and the release order differs from issue order or a datagram is "
        "dropped; distinct = the schedule actually taken")
ASSUMPTIONS = [
    "asyncio is cooperative: the sender seam is the only yield point, so release orders at that seam are the complete schedule space (threads are out of scope)",
    "SET targets live in a subtree no other operation reads, so 'alone' is well defined; the one exception is the pair getshared / setget, where the racing read may return the old or the new value and the read-back after the confirmed write must return the new one",
    "dropped datagrams stay below the default retry budget, so every operation succeeds when run alone",
    "an AUTHENTICATED answer the engine gave before it restarted and that is delivered afterwards may be refused (RFC 3414 3.2 7b: its engine boots are older than what the client has learned meanwhile): that operation may end with an exception; unauthenticated discovery replies of the same age carry no such excuse",
]
EXHAUSTIVE = lambda tier: ("all release/drop schedules of every pair%s from the fixed operation set, v2c and SNMPv3" % (
    " and every triple" if tier == "thorough" else " and selected triples"))

TBL = (1, 3, 6, 1, 4, 1, 88, 2, 1)
SC = (1, 3, 6, 1, 4, 1, 88, 1, 0)
PRIV = (1, 3, 6, 1, 4, 1, 88, 9)


SHARED = (1, 3, 6, 1, 4, 1, 88, 9, 77, 0)     # written by "setget", read by "getshared"


def make_db():
    db = {SC: (vber.T_OCTETS, b"scalar"), (1, 3, 6, 1, 4, 1, 88, 3, 0): (vber.T_INT, b"\x05")}
    for c in (1, 2):
        for r in (1, 2, 3):
            db[TBL + (c, r)] = (vber.T_INT, bytes([16 * c + r]))
    db[SHARED] = (vber.T_OCTETS, b"initial")
    return db


OPNAMES = ["get", "multiget", "getnext", "walk", "bulkwalk", "table", "set", "geterr", "setget", "getshared"]
_opid = contextvars.ContextVar("opid", default=None)


async def do_op(client, name, k):
    O = vworld.OID
    if name == "get":
        return vworld.observe(await client.get(O(SC)))
    if name == "multiget":
        return [vworld.observe(v) for v in await client.multiget([O(SC), O(TBL + (2, 2))])]
    if name == "getnext":
        return vworld.observe_vb(await client.getnext(O(TBL + (1,))))
    if name == "walk":
        return [vworld.observe_vb(vb) async for vb in client.walk(O(TBL + (1,)))]
    if name == "bulkwalk":
        return [vworld.observe_vb(vb) async for vb in client.bulkwalk([O(TBL + (1,)), O(TBL + (2,))], bulk_size=2)]
    if name == "table":
        rows = await client.table(O(TBL))
        return sorted((r["0"], sorted((c, vworld.observe(v)) for c, v in r.items() if c != "0")) for r in rows)
    if name == "set":
        return vworld.observe(await client.set(O(PRIV + (k, 0)), vworld.make_value(vber.T_OCTETS, b"by-op-%d" % k)))
    if name == "setget":
        # write, then read back what was written: whatever else is in flight, the read comes after the confirmed write
        await client.set(O(SHARED), vworld.make_value(vber.T_OCTETS, b"fresh"))
        return vworld.observe(await client.get(O(SHARED)))
    if name == "getshared":
        return vworld.observe(await client.get(O(SHARED)))
    if name == "geterr":
        # the agent answers this one with error-status 2, error-index 1 and NO bindings (see _refuse)
        return vworld.observe(await client.get(O(PRIV + (k, 99, 0))))
    raise ValueError(name)


def _refuse(agent, req):
    """requests for <PRIV>.k.99.0 are refused with noSuchName, error-index 1, and an EMPTY binding list"""
    pdu = req["pdu"]
    if pdu["vbs"] and len(pdu["vbs"][0][0]) == len(PRIV) + 3 and pdu["vbs"][0][0][-2:] == (99, 0):
        version = req["version"]
        if version == 3:
            return agent.v3_response(req, agent.users[req["user"]], 2, 1, [])
        return agent.community_response(version, pdu["rid"], 2, 1, [])
    return None


class Sched:
    """the sender seam: parks every datagram; honours ``retries`` like send_udp"""

    def __init__(self, agents):
        self.agents = agents
        self.pending = []     # dict(fut, data, timeout, retries, op, client, left)
        self.trace = []
        self.max_parallel_ops = 0

    def sender_for(self, ci):
        async def sender(endpoint, data, timeout=None, retries=None, loop=None):
            fut = asyncio.get_running_loop().create_future()
            self.pending.append(dict(fut=fut, data=bytes(data), timeout=timeout, retries=retries, op=_opid.get(),
                                     client=ci, left=retries if retries is not None else 1))
            self.max_parallel_ops = max(self.max_parallel_ops, len({p["op"] for p in self.pending}))
            return await fut
        return sender


def run_schedule(case, choices, drops_per_op):
    """-> (outcomes per op, info) ; choices is consumed; branching recorded"""
    proto = case["proto"]
    nclients = case.get("clients", 1)
    ops = case["ops"]
    protos = [proto] + ([case.get("proto2", proto)] if nclients == 2 else [])
    db = make_db()
    users = [vworld.agent_user(p) for p in protos if p["v"] == "3"]
    agent = vagent.Agent(db, users=users, request_cap=400)
    agent.respond_hook = _refuse
    agents = [agent] * len(protos)
    if case.get("two_agents") and nclients == 2:
        # the second client talks to ANOTHER engine that happens to share the address (another port: a second agent on the
        # host, a NAT, a test bed): what the first client learned about its engine is nothing to the second
        other = vagent.Agent(db, users=users, request_cap=400, engine_id=b"\x80\x00\x1f\x88\x80second-agent", boots=11)
        other.respond_hook = _refuse
        agents = [agent, other]
    sched = Sched(agents)
    clients = [vworld.Client("192.0.2.1", vworld.creds(p), sender=sched.sender_for(i), port=161 + 1000 * i * bool(case.get("two_agents")))
               for i, p in enumerate(protos)]
    info = dict(branch=[], taken=[], reordered=False, dropped=0, deadlock=False)
    outcomes = [None] * len(ops)

    async def wrap(i, ci, name, k):
        _opid.set(i)
        try:
            outcomes[i] = ("ok", await do_op(clients[ci], name, k))
        except vagent.AgentInternalError:
            raise
        except Exception as e:  # noqa
            outcomes[i] = ("exc", type(e).__name__, str(e)[:200])

    async def settle(tasks):
        last = None
        stable = 0
        for _ in range(200):
            await asyncio.sleep(0)
            cur = (len(sched.pending), sum(t.done() for t in tasks))
            stable = stable + 1 if cur == last else 0
            last = cur
            if stable >= 3:
                return

    async def drive():
        base = case.get("_index", 0)
        tasks = [asyncio.ensure_future(wrap(i, ci, name, base + i)) for i, (ci, name) in enumerate(ops)]
        drops = [0] * len(ops)
        step = 0
        seq = 0
        issue_order = {}
        while True:
            await settle(tasks)
            # a request whose waiter is gone (its operation was cancelled or has failed meanwhile) is no longer in flight
            sched.pending[:] = [p for p in sched.pending if not p["fut"].done()]
            for p in sched.pending:
                if id(p) not in issue_order:
                    issue_order[id(p)] = seq
                    seq += 1
            if all(t.done() for t in tasks):
                break
            if not sched.pending:
                info["deadlock"] = True
                for t in tasks:
                    t.cancel()
                break
            options = [(j, "answer") for j in range(len(sched.pending))]
            options += [(j, "drop") for j, p in enumerate(sched.pending) if p["op"] is not None and drops[p["op"]] < drops_per_op]
            if case.get("stale", 0) > info.get("stale_n", 0):
                # the agent answers NOW, the answer stays in the network and is delivered when the request is released later
                options += [(j, "answer_now_deliver_later") for j, p in enumerate(sched.pending) if "pre" not in p]
            if case.get("reboots", 0) > info.get("reboots_n", 0):
                options += [(-1, "reboot")]
            if case.get("cancels", 0) > info.get("cancelled_n", 0) and sum(1 for t in tasks if not t.done()) >= 2:
                # (also while several operations wait for ONE datagram, e.g. a discovery exchange they share)
                # the caller of one operation gives up (its task is cancelled) while others are in flight
                options += [(j, "cancel") for j in range(len(sched.pending))]
            c = choices[step] if step < len(choices) else 0
            c %= len(options)
            info["branch"].append(len(options))
            info["taken"].append(c)
            step += 1
            j, action = options[c]
            if action == "reboot":
                info["reboots_n"] = info.get("reboots_n", 0) + 1
                for a in dict.fromkeys(map(id, agents)):
                    next(x for x in agents if id(x) == a).reboot()
                for q in sched.pending:
                    if "pre" in q:
                        q["stale"] = True     # an answer the engine gave before it restarted, still in the network
                continue
            if action == "answer_now_deliver_later":
                info["stale_n"] = info.get("stale_n", 0) + 1
                q = sched.pending[j]
                try:
                    q["pre"] = ("ok", agents[q["client"]].handle(q["data"], timeout=q["timeout"], retries=q["retries"]))
                except vagent.Silent as e:
                    q["pre"] = ("silent", e)
                except vagent.AgentInternalError as e:
                    q["pre"] = ("err", e)
                continue
            if action == "answer" and issue_order[id(sched.pending[j])] != min(issue_order[id(p)] for p in sched.pending):
                info["reordered"] = True
            p = sched.pending[j]
            if action == "cancel":
                info["cancelled_n"] = info.get("cancelled_n", 0) + 1
                info.setdefault("cancelled_ops", []).append(p["op"])
                sched.pending.pop(j)
                tasks[p["op"]].cancel()
                continue
            if action == "drop":
                drops[p["op"]] += 1
                info["dropped"] += 1
                info.setdefault("drops", {})[p["op"]] = drops[p["op"]]
                p["left"] -= 1
                if p["left"] <= 0:
                    sched.pending.pop(j)
                    p["fut"].set_exception(Timeout("scripted loss: no retries left (retries=%r)" % p["retries"]))
                continue
            sched.pending.pop(j)
            try:
                if "pre" in p:
                    kind, val = p["pre"]
                    if p.get("stale") and kind == "ok" and p["op"] is not None:
                        try:
                            mm = vber.parse_message(val)
                            if mm.get("version") == 3 and mm.get("flags", 0) & 1:
                                # RFC 3414 3.2 7b: a non-authoritative engine that has meanwhile learned the new
                                # snmpEngineBoots may (must) refuse an AUTHENTICATED message carrying the old one
                                info.setdefault("stale_ops", []).append(p["op"])
                        except vber.BerError:
                            pass
                    if kind == "ok":
                        p["fut"].set_result(val)
                        continue
                    raise val
                p["fut"].set_result(agents[p["client"]].handle(p["data"], timeout=p["timeout"], retries=p["retries"]))
            except vagent.Silent as e:
                p["fut"].set_exception(Timeout("the agent does not answer: %s" % e))
            except vagent.AgentInternalError as e:
                p["fut"].set_exception(e)
                info["agent_error"] = str(e)
        for i, t in enumerate(tasks):
            if t.cancelled() and i not in info.get("cancelled_ops", []):
                info["task_error"] = "operation %d was cancelled although only operation(s) %s were given up by their caller" % (
                    i, info.get("cancelled_ops", []))
            elif t.done() and not t.cancelled() and t.exception() is not None:
                info["task_error"] = repr(t.exception())

    with vclock.fixed(case.get("clock", 1_700_000_000), [case.get("clock_inc", 0.4)]):
        vworld.run(drive())
    info["max_parallel"] = sched.max_parallel_ops
    info["agent"] = agent
    info["logs"] = [r for a in dict.fromkeys(map(id, agents)) for r in next(x for x in agents if id(x) == a).log]
    return outcomes, info


_ALONE = {}


def alone(case, i, ndrops=0):
    """the same operation alone on a fresh client and agent, losing the same number of datagrams"""
    ci, name = case["ops"][i]
    protos = [case["proto"]] + ([case.get("proto2", case["proto"])] if case.get("clients", 1) == 2 else [])
    key = (vworld.proto_label(protos[ci]), name, i if name == "set" else 0, ndrops)
    if key not in _ALONE:
        solo = dict(proto=protos[ci], clients=1, clock_inc=0.4)
        # choices: with d drops allowed, option list is [answer..., drop...]; one pending request => index 1 is "drop"
        outcomes, info = run_schedule(dict(solo, ops=[[0, name]], _index=i), [1] * ndrops, ndrops)
        o = outcomes[0]
        if o and o[0] == "exc" and o[1] == "AuthenticationError" and any(
                vworld.reencoded_len_127(r.get("response", b"")) for r in info["agent"].log if r.get("response")):
            o = ("F10B",)
        _ALONE[key] = o
    return _ALONE[key]


def judge(case, outcomes, info) -> Result:
    ops = case["ops"]
    classes = [vworld.proto_label(case["proto"]), "clients=%d" % case.get("clients", 1), "nops=%d" % len(ops)]
    nontrivial = info["max_parallel"] >= 2 and (info["reordered"] or info["dropped"] > 0)
    if info["reordered"]:
        classes.append("reordered")
    if info["dropped"]:
        classes.append("dropped")
    if info.get("cancelled_n"):
        classes.append("one_caller_cancelled")
        nontrivial = nontrivial or info["max_parallel"] >= 2
    key = (vworld.proto_label(case["proto"]), case.get("clients", 1), tuple(map(tuple, ops)), tuple(info["taken"]),
           case.get("clock_inc"))
    head = "%s ops=%s schedule=%s" % (vworld.proto_label(case["proto"]), ops, info["taken"])
    if info.get("agent_error"):
        return Result("%s: a datagram the reference agent cannot handle: %s" % (head, info["agent_error"]), nontrivial, classes, key=key)
    if info["deadlock"]:
        return Result("%s: operations are blocked although no request is pending" % head, nontrivial, classes, key=key)
    if info.get("task_error"):
        return Result("%s: %s" % (head, info["task_error"]), nontrivial, classes, key=key)
    agent = info["agent"]
    if case.get("two_agents"):
        classes.append("two_engines_one_address")
    if info.get("reboots_n"):
        classes.append("engine_restarts")
    if info.get("stale_n"):
        classes.append("answer_delayed_in_network")
    if info.get("reboots_n") and info.get("stale_n"):
        classes.append("restart_and_delayed_answer")
    for r in info["logs"]:
        if info.get("reboots_n") and r.get("verdict") == "notInTimeWindow":
            continue        # unavoidable for requests on their way when the engine restarted; the results are judged below
        if r.get("version") == 3 and not r.get("discovery") and r.get("verdict") != "accepted":
            return Result("%s: the agent answered %s to a request (mixed-up users / keys / engine data?)" % (head, r.get("verdict")),
                          nontrivial, classes, key=key)
    for i, out in enumerate(outcomes):
        if i in info.get("cancelled_ops", []):
            continue      # this operation was given up by its own caller
        a = alone(case, i, info.get("drops", {}).get(i, 0))
        if a == ("F10B",):
            continue
        if out is None:
            return Result("%s: operation %d never finished" % (head, i), nontrivial, classes, key=key)
        if i in info.get("stale_ops", []) and out is not None and out[0] == "exc" and out[1] != "AssertionError":
            continue      # its authenticated answer dated from before the engine's restart: refusing it is legitimate
        if ops[i][1] == "getshared" and out == ("ok", ("OctetString", b"fresh")) and any(n == "setget" for _, n in ops):
            continue      # a read racing with the write of "setget" may see either value
        if out != a:
            if out[0] == "exc" and out[1] == "AuthenticationError":
                # possibly the cross-property known finding: judged by the trigger on any response of this run
                if any(vworld.reencoded_len_127(r.get("response", b"")) for r in agent.log if r.get("response")):
                    return Result("AuthenticationError on an authentic response with a 127-octet TLV", nontrivial, classes,
                                  known="reencoded_len_127", key=key)
            return Result("%s: operation %d %r obtained %r, alone it obtains %r" % (head, i, ops[i], out, a), nontrivial, classes, key=key)
    return Result(None, nontrivial, classes, key=key, observations={"max_parallel_ops": info["max_parallel"]})


def run_case(case) -> Result:
    outcomes, info = run_schedule(case, list(case.get("choices", [])), case.get("drops_per_op", 1))
    return judge(case, outcomes, info)


def dfs_unit(check, stats: Stats, *, groups, label, known_ids=(), budget=4000, drops_per_op=1):
    """enumerate every schedule of every operation group (budget per group)"""
    import time as _t

    t0 = _t.time()
    total = 0
    complete = True
    for case0 in groups:
        stack = [[]]
        n = 0
        drops_per_op = case0.get("drops_per_op", 0)
        while stack:
            prefix = stack.pop()
            case = dict(case0, choices=prefix, drops_per_op=drops_per_op)
            import vrunner as _vr

            with _vr.logging_mode(_vr.wants_logging(case)):
                outcomes, info = run_schedule(case, list(prefix), drops_per_op)
            case["choices"] = list(info["taken"])
            res = judge(case, outcomes, info)
            stats.record(case, res, sample=(total % 97 == 0))
            n += 1
            total += 1
            if res.violation is not None:
                if res.known is not None and res.known in known_ids:
                    stats.excluded_known[res.known] = stats.excluded_known.get(res.known, 0) + 1
                else:
                    stats.violations.append(dict(case=case, message=res.violation, unit=label))
                    if len(stats.violations) >= 3:
                        complete = False
                        stack = []
                        break
            taken, branch = info["taken"], info["branch"]
            for i in range(len(prefix), len(taken)):
                for c in range(1, branch[i]):
                    stack.append(taken[:i] + [c])
            if n >= budget:
                complete = complete and not stack
                stack = []
        if len(stats.violations) >= 3:
            break
    if complete:
        stats.exhaustive_units += 1
    stats.units.append(dict(unit=label, kind="dfs-schedules", cases=total, groups=len(groups), exhaustive=complete,
                            cut_short=not complete, wall_s=round(_t.time() - t0, 2)))


FIXED = ["get", "getnext", "walk", "bulkwalk", "set", "multiget", "geterr"]
# two users of one engine that share pass-phrases but not the hash (defeats caches keyed without the auth protocol)
SHARED_SECRET_USERS = [
    {"v": "3", "user": "ops-md5", "algo": "md5", "auth_pw": b"one-shared-passphrase".hex(), "priv_pw": b"one-shared-passphrase".hex(), "priv": "verifstream"},
    {"v": "3", "user": "ops-sha", "algo": "sha1", "auth_pw": b"one-shared-passphrase".hex(), "priv_pw": b"one-shared-passphrase".hex(), "priv": "verifstream"},
]


def groups_for(tier):
    out = []
    protos = [vworld.V2C_PROTO, vworld.V3_PROTOS[3], vworld.V3_PROTOS[2]]
    for p in protos:
        for a, b in itertools.combinations_with_replacement(range(len(FIXED)), 2):
            out.append(dict(proto=p, clients=1, ops=[[0, FIXED[a]], [0, FIXED[b]]], clock_inc=0.4))
        out.append(dict(proto=p, proto2=vworld.V3_PROTOS[1] if p["v"] == "3" else {"v": "2c", "community": "public"},
                        clients=2, ops=[[0, "get"], [1, "walk"]], clock_inc=0.4))
        if p["v"] == "3":
            # the engine restarts while two operations of one client are in flight and one answer is delayed in the network
            out.append(dict(proto=p, clients=1, ops=[[0, "get"], [0, "get"]], clock_inc=0.4, reboots=1, stale=1))
            out.append(dict(proto=p, clients=1, ops=[[0, "get"], [0, "getnext"]], clock_inc=0.4, reboots=1, stale=2))
        # two engines behind one address (second client on another port), same and different users
        out.append(dict(proto=p, proto2=p, clients=2, two_agents=True, ops=[[0, "walk"], [1, "get"]], clock_inc=0.4))
        out.append(dict(proto=p, proto2=vworld.V3_PROTOS[1] if p["v"] == "3" else {"v": "2c", "community": "public"},
                        clients=2, two_agents=True, ops=[[0, "get"], [1, "get"], [0, "getnext"]], clock_inc=0.4))
        if p["v"] == "3" and p is vworld.V3_PROTOS[3]:
            out.append(dict(proto=SHARED_SECRET_USERS[0], proto2=SHARED_SECRET_USERS[1], clients=2, ops=[[0, "get"], [1, "get"]], clock_inc=0.4))
            out.append(dict(proto=SHARED_SECRET_USERS[1], proto2=SHARED_SECRET_USERS[0], clients=2, ops=[[0, "walk"], [1, "get"]], clock_inc=0.4))
        # one caller gives up while the other operation is in flight (all points of cancellation)
        out.append(dict(proto=p, clients=1, ops=[[0, "get"], [0, "get"]], clock_inc=0.4, cancels=1))
        out.append(dict(proto=p, clients=1, ops=[[0, "walk"], [0, "get"]], clock_inc=0.4, cancels=1))
        triples = list(itertools.combinations(["get", "getnext", "set", "multiget"], 3))
        if tier == "quick":
            triples = triples[:1]
        for t in triples:
            out.append(dict(proto=p, clients=1, ops=[[0, n] for n in t], clock_inc=0.4))
        # with one dropped datagram per operation: complete for the single-request operations
        single = ["get", "getnext", "set", "multiget"]
        for a, b in itertools.combinations_with_replacement(range(len(single)), 2):
            if tier == "thorough" or p["v"] != "3" or (single[a], single[b]) == ("get", "set"):
                out.append(dict(proto=p, clients=1, ops=[[0, single[a]], [0, single[b]]], clock_inc=0.4, drops_per_op=1))
        if tier == "thorough" or p["v"] != "3":
            out.append(dict(proto=p, clients=1, ops=[[0, "set"], [0, "walk"]], clock_inc=0.4, drops_per_op=1))
        if tier == "thorough" or p["v"] != "3":
            out.append(dict(proto=p, clients=1, ops=[[0, "set"], [0, "set"], [0, "get"]], clock_inc=0.4, drops_per_op=1))
    return out


@st.composite
def cases(draw):
    proto = draw(st.sampled_from([vworld.V2C_PROTO, vworld.V2C_PROTO] + vworld.V3_PROTOS[1:]))
    nclients = draw(st.sampled_from([1, 1, 2]))
    case = dict(proto=proto, clients=nclients, clock_inc=draw(st.sampled_from([0, 0.4, 1.0, 1.7])),
                clock=draw(st.sampled_from([1_700_000_000, 5, 2 ** 31 - 10 ** 6])), drops_per_op=2)
    if nclients == 2:
        case["two_agents"] = draw(st.sampled_from([False, False, True]))
        case["proto2"] = draw(st.sampled_from([p for p in [vworld.V2C_PROTO] + vworld.V3_PROTOS[1:] + SHARED_SECRET_USERS if p["v"] == proto["v"]]))
        if proto["v"] == "3" and draw(st.booleans()):
            case["proto"], case["proto2"] = SHARED_SECRET_USERS
    n = draw(st.integers(2, 6))
    case["ops"] = [[draw(st.integers(0, nclients - 1)), draw(st.sampled_from(OPNAMES))] for _ in range(n)]
    case["choices"] = draw(st.lists(st.integers(0, 17), min_size=0, max_size=40))
    case["cancels"] = draw(st.sampled_from([0, 0, 1]))
    if proto["v"] == "3" and draw(st.integers(0, 3)) == 0:
        case["reboots"] = 1
        case["stale"] = draw(st.sampled_from([0, 1, 2]))
        case["cancels"] = 0
    return case


def units(tier, seed):
    gs = groups_for(tier)
    # deal the expensive groups (more operations, drops, SNMPv3) round-robin
    gs.sort(key=lambda g: (-len(g["ops"]), -g.get("drops_per_op", 0), g["proto"]["v"] != "3", str(g["ops"])))
    nshard = 14
    us = [Unit("dfs-%d" % k, dfs_unit, groups=gs[k::nshard], label="dfs-%d" % k,
               budget=1500 if tier == "quick" else 20000) for k in range(nshard)]
    n = 60 if tier == "quick" else 1500
    for sh in range(4 if tier == "quick" else 16):
        us.append(Unit("hyp-%d" % sh, hypothesis_unit, strategy=cases(), examples=n, seed=shard_seed(seed, sh),
                       label="hyp-%d" % sh))
    return us
