"""C01 -- Walk exactness: every instance below each root exactly once,
nothing else (GETNEXT walk / multiwalk).  DESIGN.md section 3, C01."""
from __future__ import annotations

import itertools

from hypothesis import strategies as st

import vagent
import vber
import vstrategies as vs
import vworld
from vrunner import Result, Unit, enumeration_unit, hypothesis_unit, shard_seed

ID = "C01"
LEVEL = "exploration"
TECHNIQUE = ("property-based testing (Hypothesis): generated agent databases and root lists, "
             "real Client.walk/multiwalk against an independent reference agent, set-exactness "
             "oracle from the database + metamorphic root-order independence; exhaustive "
             "small-scope enumeration in the thorough tier")
RULE = ("case = database built by construction (2..7 disjoint slots, gaps, depths, empty "
        "subtrees, end of view) x 1..4 roots in a drawn listing order x protocol (v2c, v3 at 3 "
        "levels) x API entry (walk/multiwalk/PyWrapper); non-trivial = >=2 instances below some "
        "root AND one of {>=2 roots, empty subtree, root at/after end of view, adjacent subtrees "
        "of different size, unsorted listing}; distinct = SHA-1 of the canonical JSON case")
ASSUMPTIONS = [
    "reference agent lib/vagent.py implements RFC 3416 GETNEXT semantics (lexicographic successor, endOfMibView)",
    "OIDs have >= 2 arcs, first arc 0..2, second arc < 40, sub-identifiers <= 2^32-1 (x690 documents the rest as unsupported)",
    "an instance whose OID equals a root may or may not be reported (property text)",
]
_REQUIRED_BASE = {"multi_root": 0.12, "empty_subtree": 0.06, "unsorted_listing": 0.06, "ends_at_end_of_view": 0.03, "v3": 0.018}   # (60 % of the fractions first required: room for seed-to-seed variation)
# generator health of the newer case families (quick tier: the thorough tier dilutes them with enumerated units)
_REQUIRED_QUICK = {"volatile_values": 0.048}   # (60 % of the fractions first required: room for seed-to-seed variation)


def REQUIRED_CLASSES(tier):
    return dict(_REQUIRED_BASE, **(_REQUIRED_QUICK if tier == "quick" else {}))


def _below(o, r):
    return len(o) > len(r) and o[:len(r)] == r


def oracle_sets(db, roots):
    required = {o for o in db if any(_below(o, r) for r in roots)}
    allowed = required | {o for o in db if o in roots}
    return required, allowed


VOLATILE_TAGS = (vber.T_COUNTER, vber.T_GAUGE, vber.T_TICKS, vber.T_COUNTER64)


def _listing_orders(roots, limit=6):
    """Deterministic set of listing orders for the metamorphic relation:
    sorted, reversed, rotations (all permutations when n <= 3)."""
    s = sorted(roots)
    if len(s) <= 3:
        perms = list(itertools.permutations(s))
    else:
        perms = [tuple(s), tuple(reversed(s))] + [tuple(s[i:] + s[:i]) for i in range(1, len(s))]
    out = []
    for p in perms:
        if list(p) not in out:
            out.append(list(p))
    return out[:limit]


async def _do_walk(client, api, roots):
    if api == "walk":
        return [vworld.observe_vb(vb) async for vb in client.walk(vworld.OID(roots[0]))]
    if api == "multiwalk":
        return [vworld.observe_vb(vb) async for vb in client.multiwalk([vworld.OID(r) for r in roots])]
    py = vworld.PyWrapper(client)
    if api == "pywalk":
        return [("py", vb.oid, vb.value, type(vb.oid).__name__) async for vb in py.walk(vagent.S(roots[0]))]
    if api == "pymultiwalk":
        return [("py", vb.oid, vb.value, type(vb.oid).__name__) async for vb in py.multiwalk([vagent.S(r) for r in roots])]
    raise ValueError(api)


def walk_once(case, roots, api, what="walk", bulk=None):
    """Run one walk against a fresh agent + client.  -> (got dict oid->obs,
    order list, violation|None, agent)"""
    db = vworld.db_from_case(case["db"])
    cap = 4 * len(db) + 16 + 4 * len(roots)
    agent, client = vworld.make_world(case["proto"], db, request_cap=cap,
                                      bulk_script=[tuple(p) for p in case.get("bulk_script", [])],
                                      early_stop=case.get("early_stop", True))
    # a live device: counters, gauges and time ticks move on with every read, so the same instance read twice within one
    # response (two columns running into the same OID) carries two different values
    agent.volatile = bool(case.get("volatile"))
    try:
        if bulk is None:
            got = vworld.run(_do_walk(client, api, roots))
        else:
            got = vworld.run(bulk(client))
    except vagent.CapExceeded:
        return None, None, "%s did not end by itself: more than %d requests for a database of %d instances" % (what, cap, len(db)), agent
    except vagent.AgentInternalError as exc:
        return None, None, "client sent something the reference agent cannot parse: %s" % exc, agent
    except Exception as exc:  # noqa
        if vworld.f10b_excusable(agent, exc):
            return None, None, "F10B", agent
        return None, None, "%s raised %s: %s" % (what, type(exc).__name__, exc), agent
    out = {}
    order = []
    for item in got:
        if item[0] == "py":
            _, o, val, oname = item
            if oname != "str":
                return None, None, "wrapper yielded OID of type %s" % oname, agent
            o_t = tuple(int(x) for x in o.split("."))
            obs = ("py", val)
        else:
            o_t, tname, val = item
            obs = (tname, val)
        if o_t in out:
            return None, None, "%s yielded %s twice" % (what, vagent.S(o_t)), agent
        if agent.volatile and db.get(o_t, (None,))[0] in VOLATILE_TAGS:
            obs = (obs[0], ("volatile", type(obs[1]).__name__))
        out[o_t] = obs
        order.append(o_t)
    return out, order, None, agent


def check_against_db(case, roots, got, order, what, pythonic=False):
    db = vworld.db_from_case(case["db"])
    roots_t = [tuple(r) for r in roots]
    required, allowed = oracle_sets(db, roots_t)
    missing = sorted(required - set(got))
    extra = sorted(set(got) - allowed)
    if missing:
        return "%s lost %d instance(s) below the roots, e.g. %s (roots listed %s)" % (
            what, len(missing), vagent.S(missing[0]), [vagent.S(r) for r in roots])
    if extra:
        return "%s yielded %s which is outside all roots or not in the agent" % (what, vagent.S(extra[0]))
    for o, obs in got.items():
        tag, content = db[o]
        if pythonic:
            exp = ("py", vber.pythonized(tag, content))
        else:
            exp = vber.typed_value(tag, content)
        if case.get("volatile") and tag in VOLATILE_TAGS:
            exp = (exp[0], ("volatile", type(exp[1]).__name__))      # the value moves, its type does not
        if obs != exp or type(obs[1]) is not type(exp[1]):
            return "%s yielded %s = %r, the agent holds %r" % (what, vagent.S(o), obs, exp)
    if len(roots_t) == 1 and order != sorted(order):
        return "%s of a single root is not in ascending OID order" % what
    return None


def classify(case):
    db = vworld.db_from_case(case["db"])
    roots = [tuple(r) for r in case["roots"]]
    flags = set(case.get("flags", []))
    # recompute what can be recomputed (replay files may lack flags)
    sizes = [sum(1 for o in db if _below(o, r)) for r in roots]
    if len(roots) >= 2:
        flags.add("multi_root")
    if 0 in sizes:
        flags.add("empty_subtree")
    if roots != sorted(roots):
        flags.add("unsorted_listing")
    if db and max(roots) > max(db) or not db:
        flags.add("root_beyond_all")
    if db and not any(o > max(roots) and not _below(o, max(roots)) for o in db):
        flags.add("ends_at_end_of_view")
    interesting = flags & {"multi_root", "empty_subtree", "root_beyond_all",
                           "ends_at_end_of_view", "unsorted_listing"}
    if "adjacent_roots" in flags and "different_sizes" in flags:
        interesting.add("adjacent_different")
    nontrivial = max(sizes, default=0) >= 2 and bool(interesting)
    flags.add(vworld.proto_label(case["proto"]))
    if case["proto"]["v"] == "3":
        flags.add("v3")
    flags.add("api=" + case["api"])
    if case.get("volatile"):
        flags.add("volatile_values")
    return nontrivial, sorted(flags)


def run_case(case) -> Result:
    nontrivial, classes = classify(case)
    api = case["api"]
    roots = case["roots"]
    pythonic = api.startswith("py")
    got, order, viol, agent = walk_once(case, roots, api, what=api)
    if viol == "F10B":
        return Result("AuthenticationError on an authentic response with a 127-octet TLV",
                      nontrivial, classes, known="reencoded_len_127")
    if viol:
        return Result(viol, nontrivial, classes)
    viol = check_against_db(case, roots, got, order, api, pythonic)
    if viol:
        return Result(viol, nontrivial, classes)
    nreq = len(agent.log)
    # metamorphic: listing order must not matter
    if len(roots) > 1:
        db = vworld.db_from_case(case["db"])
        roots_t = {tuple(r) for r in roots}
        base = {o: v for o, v in got.items() if o not in roots_t}
        for perm in _listing_orders([list(r) for r in roots]):
            if perm == [list(r) for r in roots]:
                continue
            g2, o2, v2, _ = walk_once(case, perm, api, what=api)
            if v2 == "F10B":
                continue
            if v2:
                return Result("listing order %s: %s" % ([vagent.S(r) for r in perm], v2), nontrivial, classes)
            v2 = check_against_db(case, perm, g2, o2, api, pythonic)
            if v2:
                return Result("listing order %s: %s" % ([vagent.S(r) for r in perm], v2), nontrivial, classes)
            if {o: v for o, v in g2.items() if o not in roots_t} != base:
                return Result("outcome depends on the order in which the roots were listed (%s vs %s)" % (
                    [vagent.S(r) for r in roots], [vagent.S(r) for r in perm]), nontrivial, classes)
    return Result(None, nontrivial, classes, observations={"max_requests": nreq})


@st.composite
def cases(draw, v3_weight=1):
    w = draw(vs.walk_world())
    p = draw(vs.proto(v3_weight=v3_weight))
    if len(w["roots"]) == 1:
        api = draw(st.sampled_from(["walk", "walk", "multiwalk", "pywalk"]))
    else:
        api = draw(st.sampled_from(["multiwalk", "multiwalk", "multiwalk", "pymultiwalk"]))
    w["proto"] = p
    w["api"] = api
    w["volatile"] = draw(st.sampled_from([False, False, True]))
    return w


# -- exhaustive small scope ---------------------------------------------------


def small_scope(shard, nshards):
    """All databases over a 3-slot x <=3-instance universe (plus an optional
    trailing neighbour) x all non-empty root subsets x all listing orders are
    covered by run_case's permutation loop."""
    pre = (1, 3, 6, 1, 2, 1)
    slots = [pre + (3,), pre + (4,), pre + (6,)]
    suffixes = [(0,), (1, 0), (2,)]
    val = [vber.T_INT, "07"]
    n = 0
    for sizes in itertools.product(range(4), repeat=3):
        for tail in (False, True):
            for k in range(1, 4):
                for subset in itertools.combinations(range(3), k):
                    n += 1
                    if n % nshards != shard:
                        continue
                    db = []
                    for i, s in enumerate(slots):
                        for suf in suffixes[:sizes[i]]:
                            db.append([list(s + suf), val[0], "%02x" % (i * 16 + len(suf))])
                    if tail:
                        db.append([list(pre + (9, 0)), vber.T_OCTETS, "7461696c"])
                    roots = [list(slots[i]) for i in subset]
                    yield dict(db=db, roots=roots, proto=vworld.V2C_PROTO,
                               api="multiwalk" if k > 1 else "walk")


def units(tier, seed):
    out = []
    if tier == "quick":
        for sh in range(16):
            out.append(Unit("hyp-%d" % sh, hypothesis_unit, strategy=cases(),
                            examples=100, seed=shard_seed(seed, sh), label="hyp-%d" % sh))
    else:
        for sh in range(16):
            out.append(Unit("hyp-%d" % sh, hypothesis_unit, strategy=cases(v3_weight=2),
                            examples=2500, seed=shard_seed(seed, sh), label="hyp-%d" % sh))
        for sh in range(16):
            out.append(Unit("small-scope-%d" % sh, enumeration_unit,
                            cases=small_scope(sh, 16), label="small-scope-%d" % sh,
                            sample_every=50))
    return out


def EXHAUSTIVE(tier):
    if tier == "thorough":
        return ("all databases over 3 slots x 0..3 instances (+/- trailing neighbour) x all root "
                "subsets x all listing orders (v2c)")
    return None
