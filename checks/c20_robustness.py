"""C20 -- no datagram, however malformed, can hang the client or exhaust
memory.  DESIGN.md section 3, C20."""
from __future__ import annotations

import asyncio
import hashlib
import resource
import time

from hypothesis import strategies as st

import vagent
import vber
import vclock
import vloop
import vsandbox
import vworld
from vrunner import Result, Unit, enumeration_unit, hypothesis_unit, shard_seed

ID = "C20"
LEVEL = "fault_enumeration"
TECHNIQUE = ("fault enumeration + fuzzing: for base datagrams of the reference agent (responses, error responses, Reports, discovery "
             "replies, traps; v1, v2c, SNMPv3 at three levels) EVERY single-bit flip, EVERY truncation and EVERY value 0..255 at every "
             "TLV header octet is delivered through the real client / trap listener, also applied to the scoped PDU before it is "
             "encrypted and signed; Hypothesis adds random bytes and TLV trees with lying lengths and deep nesting; coverage-guided "
             "atheris campaigns in the thorough tier; structured families on top: overlap chains in place of every message field, deep "
             "proper nesting with DEBUG logging on / off, integer fields of any width, peers that answer every request of a call the same "
             "way, and HISTORIES of hundreds of refused datagrams on one client / listener. Oracle: CPU time and resident-memory growth bounded by a stated multiple of the "
             "datagram size, the same client / listener handles the next valid exchange correctly, a call ends within a fixed number of "
             "datagrams, and what stays allocated after a history does not grow with its length")
RULE = ("case = entry path {response, discovery reply, trap listener} x base datagram x mutation {bit i, truncation at n, header octet "
        "o := v, the same on the plaintext scoped PDU of an authenticated / encrypted message, raw bytes, generated TLV tree incl. wide flat sequences of up to 20000 tiny elements in every frame position, overlap chains (children that end beyond their parent) and properly nested values of depth 10..1500 with DEBUG logging on and off, on every entry path incl. the pythonic wrapper, Response / Report / discovery Report whose integer fields (request-id, error-status, error-index, boots, time, counter) have any width and value} + a peer that answers EVERY request of one call the same way (authentic notInTimeWindow report after a restart each time, one recorded report replayed, the first response replayed, unknownEngineID for ever: the call must end within 40 datagrams) + histories of 150..1800 refused datagrams on one client / listener (what stays allocated must not grow with their number); oracle "
        "budget: CPU <= 2 s + 100 us x len, resident-set growth <= 48 MiB + 1024 x len; non-trivial = the mutant is rejected (an "
        "exception) or differs from the base in a header octet; distinct = (exception type, innermost puresnmp / x690 frame) "
        "buckets are reported, distinct count = distinct mutants")
ASSUMPTIONS = [
    "the CPU and memory budgets are stated constants (>1000x the cost of a benign datagram of the same size), not a proof of linearity",
    "the x690 defect 'indefinite length without terminator loops forever' is excluded at its root cause inside the harness (guard, hits counted) so the search continues behind it; the canned replay runs without the guard in a child process with hard limits",
    "after a datagram the same client must complete a valid exchange; after an ACCEPTED (possibly altered) discovery reply -- one after which the client went on to send its request -- no such demand is made, because the client was simply told other engine data",
]
EXHAUSTIVE = lambda tier: "all single-bit flips, truncations and header-octet substitutions of %d base datagrams" % len(BASES(tier))

SC = (1, 3, 6, 1, 2, 1, 1, 5, 0)
DB = {SC: (vber.T_OCTETS, b"host"), (1, 3, 6, 1, 2, 1, 1, 6, 0): (vber.T_OCTETS, b"lab"),
      (1, 3, 6, 1, 2, 1, 2, 1, 0): (vber.T_INT, b"\x03")}
WANT = ("OctetString", b"host")
PROTOS = {"v1": vworld.V1_PROTO, "v2c": vworld.V2C_PROTO, "v3n": vworld.V3_PROTOS[0], "v3a": vworld.V3_PROTOS[1],
          "v3p": vworld.V3_PROTOS[3], "v3s": vworld.V3_PROTOS[4]}


def BASES(tier):
    b = [("response", "v2c", "multiget"), ("response", "v3n", "get"), ("disco", "v3a", "get"),
         ("response", "v3a", "get"), ("inner", "v3p", "get"), ("trap", "v2c", "trap"), ("udp", "v2c", "get")]
    if tier == "thorough":
        b += [("response", "v1", "get"), ("response", "v2c", "error"), ("response", "v3p", "get"), ("response", "v3s", "multiget"),
              ("inner", "v3a", "multiget"), ("inner", "v3s", "get"), ("disco", "v3n", "get"), ("disco", "v3p", "get"),
              ("response", "v3n", "report"), ("trap", "v2c", "trap_big"), ("response", "v2c", "big"), ("inner", "v3a", "error")]
    return b


def _trap_pdu():
    m = trap_bytes()
    tag, c = vber.read_one(m)
    items = vber.read_all(c)
    return vber.tlv(items[2][0], items[2][1])


def trap_bytes(big=False):
    vbs = [((1, 3, 6, 1, 2, 1, 1, 3, 0), vber.T_TICKS, b"\x01\x02"),
           ((1, 3, 6, 1, 6, 3, 1, 1, 4, 1, 0), vber.T_OID, vber.oid_content((1, 3, 6, 1, 6, 3, 1, 1, 5, 3))),
           ((1, 3, 6, 1, 2, 1, 2, 2, 1, 1, 7), vber.T_INT, b"\x07")]
    if big:
        vbs += [((1, 3, 6, 1, 4, 1, 9, i), vber.T_OCTETS, b"x" * 40) for i in range(20)]
    return vber.enc_community_message(1, b"public", vber.enc_pdu(vber.PDU_TRAP, 99, 0, 0, vbs))


async def _op(client, what, py=False):
    O = vworld.OID
    if py:
        # the same exchange through the pythonic wrapper (which converts every value it hands out)
        w = vworld.PyWrapper(client)
        if what == "walk":
            return [vb async for vb in w.walk(vagent.S(SC[:-2]))]
        if what in ("get", "error", "report"):
            return await w.get(vagent.S(SC))
        return await w.multiget([vagent.S(SC), "1.3.6.1.2.1.2.1.0"])
    if what in ("get", "error", "report"):
        return vworld.observe(await client.get(O(SC)))
    if what in ("multiget", "big"):
        return [vworld.observe(v) for v in await client.multiget([O(SC), O((1, 3, 6, 1, 2, 1, 2, 1, 0))])]
    if what == "walk":
        return [vb async for vb in client.walk(O(SC[:-2]))]     # (the bindings are handed over as they are)
    raise ValueError(what)


def _special(agent, req, what):
    """non-default base responses"""
    pdu = req["pdu"]
    version = req["version"]
    if what == "error":
        vbs = [(o, vber.T_NULL, b"") for o, _, _ in pdu["vbs"]]
        es, ei = 5, 1
    elif what == "big":
        vbs = [(SC, vber.T_OCTETS, b"B" * 700), ((1, 3, 6, 1, 2, 1, 2, 1, 0), vber.T_OCTETS, b"C" * 400)]
        es = ei = 0
    elif what == "report":
        body = vber.enc_scoped_pdu(agent.engine_id, b"", vber.enc_pdu(vber.PDU_REPORT, pdu["rid"], 0, 0, [
            (vagent.OID_UNKNOWN_USER, vber.T_COUNTER, b"\x01")]))
        return agent.build_v3(req["msg_id"], 0, req["user"], body)
    else:
        return None
    if version == 3:
        return agent.v3_response(req, agent.users[req["user"]], es, ei, vbs)
    return agent.community_response(version, pdu["rid"], es, ei, vbs)


_BASE = {}


def base_bytes(base):
    """the unmutated datagram (for 'inner': the plaintext PDU) of a base"""
    if base in _BASE:
        return _BASE[base]
    path, pk, what = base
    if path == "trap":
        out = trap_bytes(what == "trap_big")
    elif path in ("udp", "pyresponse"):
        out = base_bytes(("response", pk, what))
    else:
        agent, client = vworld.make_world(PROTOS[pk], dict(DB), request_cap=20)
        agent.respond_hook = lambda a, r: _special(a, r, what)
        with vclock.fixed(1_700_000_000):
            try:
                vworld.run(_op(client, what))
            except Exception:  # noqa
                pass
        if path == "disco":
            out = [r["response"] for r in agent.log if r.get("discovery")][0]
        elif path == "inner":
            r = [r for r in agent.log if not r.get("discovery")][0]
            sc = vber.parse_scoped(r["response_scoped"])
            out = vber.enc_pdu(sc["pdu"]["tag"], sc["pdu"]["rid"], sc["pdu"]["f1"], sc["pdu"]["f2"], sc["pdu"]["vbs"])
        else:
            out = [r["response"] for r in agent.log if not r.get("discovery")][0]
    _BASE[base] = out
    return out


def header_octets(data):
    try:
        spans = vber.tlv_spans(data)
    except vber.BerError:
        return []
    offs = set()
    for tag_off, len_off, cs, ce, depth in spans:
        offs.add(tag_off)
        for o in range(len_off, cs):
            offs.add(o)
    return sorted(offs)


def mutate(data, mut):
    k = mut[0]
    if k == "flip":
        if mut[1] >= len(data) * 8:
            return None
        b = bytearray(data)
        b[mut[1] // 8] ^= 0x80 >> (mut[1] % 8)
        return bytes(b)
    if k == "trunc":
        return data[:mut[1]] if mut[1] < len(data) else None
    if k == "sub":
        if mut[1] >= len(data) or data[mut[1]] == mut[2]:
            return None
        b = bytearray(data)
        b[mut[1]] = mut[2]
        return bytes(b)
    if k == "disco_fields":
        f = mut[1]
        usm = vber.tlv(vber.T_SEQ, vber.tlv(vber.T_OCTETS, bytes.fromhex(f["engine"])) + vber.tlv(vber.T_INT, bytes.fromhex(f["boots"]))
                       + vber.tlv(vber.T_INT, bytes.fromhex(f["time"])) + vber.tlv(vber.T_OCTETS, b"") + vber.tlv(vber.T_OCTETS, b"")
                       + vber.tlv(vber.T_OCTETS, b""))
        body = vber.enc_scoped_pdu(bytes.fromhex(f["engine"]), b"", vber.enc_pdu(vber.PDU_REPORT, 0x6553F100, 0, 0, [
            (vagent.OID_UNKNOWN_ENGINE, vber.T_COUNTER, bytes.fromhex(f["counter"]))]))
        return vber.enc_v3_message(0x6553F100, 65507, 0, 3, usm, body)
    if k == "pdu_fields":
        # a Response / Report that is well-formed except that request-id, error-status and error-index are arbitrary
        # INTEGERs (any width, sign, size) in front of 0..3 ordinary bindings
        f = mut[1]
        vbl = b"".join(vber.enc_varbind(SC[:-1] + (i,), vber.T_OCTETS, b"v%d" % i) for i in range(f["nvb"]))
        pdu = vber.tlv(f["tag"], vber.tlv(vber.T_INT, bytes.fromhex(f["rid"])) + vber.tlv(vber.T_INT, bytes.fromhex(f["es"]))
                       + vber.tlv(vber.T_INT, bytes.fromhex(f["ei"])) + vber.tlv(vber.T_SEQ, vbl))
        if f["v"] in (0, 1):
            return vber.enc_community_message(f["v"], b"public", pdu)
        usm = vber.enc_usm_params(b"\x80\x00\x1f\x88\x80verif-agent", 3, 1000, b"", b"", b"")
        return vber.enc_v3_message(0x6553F100, 65507, 0, 3, usm, vber.enc_scoped_pdu(b"\x80\x00\x1f\x88\x80verif-agent", b"", pdu))
    if k in ("overlap", "deep", "overlap_at"):
        return None      # needs the base: built by overlap_mutant() / deep_mutant()
    if k == "raw":
        return bytes.fromhex(mut[1])
    if k == "tree":
        return build_tree(mut[1])
    raise ValueError(k)


def overlap_chain(k, tail=b"\x05\x00"):
    """k levels of `30 02 30 L`: a two-octet SEQUENCE holding only the HEADER of a child whose announced content lies beyond
    its parent's end -- the same octets are a child of the inner and of the outer sequence (x690 checks a child's length
    against the end of the datagram only)"""
    body = tail
    for _ in range(k):
        if len(body) > 127:
            break
        body = b"\x30\x02\x30" + bytes([len(body)]) + body
    return body


def _tree_of(data):
    """definite-length TLV tree of a well-formed datagram: [tag, children] for constructed TLVs (and for an OCTET STRING
    that holds exactly one SEQUENCE, like msgSecurityParameters), [tag, bytes] for leaves"""
    out = []
    pos = 0
    while pos < len(data):
        tag, cs, ce = vber.read_tlv(data, pos)
        content = data[cs:ce]
        kids = None
        if tag & 0x20:
            kids = _tree_of(content)
        elif tag == vber.T_OCTETS and len(content) >= 2 and content[0] == vber.T_SEQ:
            try:
                t2, cs2, ce2 = vber.read_tlv(content, 0)
                if ce2 == len(content):
                    kids = _tree_of(content)
            except vber.BerError:
                kids = None
        out.append([tag, kids if kids is not None else content])
        pos = ce
    return out


def _leaves(tree, acc=None):
    acc = [] if acc is None else acc
    for node in tree:
        if isinstance(node[1], list):
            _leaves(node[1], acc)
        else:
            acc.append(node)
    return acc


def _ser(tree):
    return b"".join(vber.tlv(tag, _ser(v) if isinstance(v, list) else v) for tag, v in tree)


def replace_leaf(data, index, new_tlv):
    """the datagram with its index-th primitive TLV (depth-first) replaced by `new_tlv`; enclosing lengths are adjusted"""
    try:
        tree = _tree_of(data)
    except vber.BerError:
        return None
    leaves = _leaves(tree)
    if index >= len(leaves):
        return None
    leaves[index][0] = "RAW"
    leaves[index][1] = new_tlv

    def ser(tr):
        return b"".join(v if tag == "RAW" else vber.tlv(tag, ser(v) if isinstance(v, list) else v) for tag, v in tr)
    return ser(tree)


def nest(depth, tag, inner=b"\x05\x00"):
    """`depth` properly nested TLVs of one tag (OCTET STRING or SEQUENCE) around `inner`"""
    body = inner
    for _ in range(depth):
        body = vber.tlv(tag, body)
    return body


def deep_mutant(base, data, depth, tag, where):
    """the base datagram with a deeply (and properly) nested value in its first binding or, for SNMPv3, as the content of
    msgSecurityParameters"""
    path = base[0]
    val = nest(depth, tag)
    try:
        if path == "inner":
            t, c = vber.read_one(data)
            p = vber.parse_pdu(t, c)
        else:
            m = vber.parse_message(data)
            p = m.get("pdu")
    except vber.BerError:
        return None

    def pdu_with(p):
        head = vber.enc_int(p["rid"]) + vber.enc_int(p["f1"]) + vber.enc_int(p["f2"])
        vbs = p["vbs"] or [(SC, vber.T_NULL, b"")]
        first = vber.tlv(vber.T_SEQ, vber.enc_oid(vbs[0][0]) + val)
        rest = b"".join(vber.enc_varbind(o, t, c) for o, t, c in vbs[1:])
        return vber.tlv(p["tag"], head + vber.tlv(vber.T_SEQ, first + rest))

    if path == "inner":
        return pdu_with(p) if where == "value" else None
    if m["version"] in (0, 1):
        return vber.enc_community_message(m["version"], m["community"], pdu_with(p)) if where == "value" else None
    if p is None or m["flags"] & 1:
        return None
    if where == "secparams":
        return vber.enc_v3_message(m["msg_id"], m["max_size"], m["flags"], 3, val,
                                   vber.enc_scoped_pdu(m["ctx_engine"], m["ctx_name"], vber.enc_pdu(p["tag"], p["rid"], 0, 0, p["vbs"])))
    usm = vber.enc_usm_params(m["engine_id"], m["boots"], m["time"], m["user"], b"", b"")
    return vber.enc_v3_message(m["msg_id"], m["max_size"], m["flags"], 3, usm,
                               vber.enc_scoped_pdu(m["ctx_engine"], m["ctx_name"], pdu_with(p)))


def overlap_mutant(base, data, k, where):
    """the base datagram with the VALUE of its first binding (or its whole binding list) replaced by an overlap chain"""
    path = base[0]
    val = vber.tlv(vber.T_SEQ, overlap_chain(k))

    def pdu_with(p):
        head = vber.enc_int(p["rid"]) + vber.enc_int(p["f1"]) + vber.enc_int(p["f2"])
        if where == "list":
            return vber.tlv(p["tag"], head + val)
        vbs = p["vbs"] or [(SC, vber.T_NULL, b"")]
        # "foreign": the value sits in a binding that a walk does not ask for (an OID outside the walked subtree)
        first = vber.tlv(vber.T_SEQ, vber.enc_oid((1, 3, 6, 1, 2, 1, 9, 1, 0) if where == "foreign" else vbs[0][0]) + val)
        rest = b"".join(vber.enc_varbind(o, t, c) for o, t, c in vbs[1:])
        return vber.tlv(p["tag"], head + vber.tlv(vber.T_SEQ, first + rest))

    try:
        if path == "inner":
            tag, c = vber.read_one(data)
            return pdu_with(vber.parse_pdu(tag, c))
        m = vber.parse_message(data)
    except vber.BerError:
        return None
    if m["version"] in (0, 1):
        return vber.enc_community_message(m["version"], m["community"], pdu_with(m["pdu"]))
    if "pdu" not in m or m["flags"] & 1:
        return None       # encrypted / authenticated on the wire: nobody without the key can build it ("inner" covers it)
    usm = vber.enc_usm_params(m["engine_id"], m["boots"], m["time"], m["user"], b"", b"")
    return vber.enc_v3_message(m["msg_id"], m["max_size"], m["flags"], 3, usm,
                               vber.enc_scoped_pdu(m["ctx_engine"], m["ctx_name"], pdu_with(m["pdu"])))


def build_tree(node, depth=0):
    """node = [tag, lie, children | hex]: a TLV whose length octets may lie"""
    tag, lie, body = node
    if isinstance(body, list):
        content = b"".join(build_tree(c, depth + 1) for c in body)
    elif isinstance(body, dict) and "wide" in body:
        # a wide, flat run of tiny elements: {"wide": n, "item": hex}
        content = bytes.fromhex(body["item"]) * body["wide"]
    elif isinstance(body, dict):
        # deep nesting: {"nest": n, "tag": t}
        content = b""
        for _ in range(body["nest"]):
            content = vber.tlv(body["tag"], content)
    else:
        content = bytes.fromhex(body)
    n = len(content)
    if lie == "ok":
        return vber.tlv(tag & 0xFF, content)
    if lie == "indef":
        return bytes([tag & 0xFF, 0x80]) + content
    if lie == "indef_term":
        return bytes([tag & 0xFF, 0x80]) + content + b"\x00\x00"
    if lie == "huge":
        return bytes([tag & 0xFF, 0x84, 0x7F, 0xFF, 0xFF, 0xFF]) + content
    if lie == "long8":
        return bytes([tag & 0xFF, 0x88]) + n.to_bytes(8, "big") + content
    if lie == "ff":
        return bytes([tag & 0xFF, 0xFF]) + content
    if lie == "plus":
        return bytes([tag & 0xFF]) + vber.enc_len(n + 1 + (n % 7)) + content
    if lie == "minus":
        return bytes([tag & 0xFF]) + vber.enc_len(max(0, n - 1 - (n % 3))) + content
    raise ValueError(lie)


def _bucket(exc):
    import traceback

    tb = traceback.extract_tb(exc.__traceback__)
    inner = [f for f in tb if "/puresnmp" in f.filename or "/x690/" in f.filename]
    f = inner[-1] if inner else (tb[-1] if tb else None)
    return "%s@%s:%s" % (type(exc).__name__, f.filename.split("/")[-1] if f else "?", f.name if f else "?")


def _budget(n):
    return 2.0 + 100e-6 * n


def _mem_budget_kb(n):
    return 48 * 1024 + n


def _wait_real(loop, done, budget):
    """let the (virtual-time) loop run for a bounded amount of REAL time until `done()`"""
    end = time.time() + budget
    while not done() and time.time() < end:
        time.sleep(0.005)
        try:
            loop.drain(1)
        except vloop.Deadlock:
            pass


def deliver(base, mutant, use_guard=True):
    """-> dict(outcome, cpu, rss_kb, followup, bucket)"""
    path, pk, what = base
    info = dict(outcome=None, bucket=None, followup=None)
    rss0 = resource.getrusage(resource.RUSAGE_SELF).ru_maxrss
    t0 = time.process_time()
    if path == "udp":
        # through the real UDP sender (send_udp + SNMPClientProtocol) on a virtual-time loop: every attempt is answered
        # with the mutant after 0.1 s; the follow-up call is answered with the authentic response
        good = base_bytes(("response", pk, what))
        loop = vloop.VLoop([dict(kind="reply", d=0.1)] * 400, mutant)
        old = vworld._LOOP
        try:
            asyncio.set_event_loop(loop)
            client = vworld.Client("192.0.2.1", vworld.creds(PROTOS[pk]))
            client.configure(timeout=1, retries=3)
            with vclock.fixed(1_700_000_000):
                try:
                    loop.run_until_complete(_op(client, what))
                    info["outcome"] = "ok"
                except vsandbox.HangDetected:
                    raise
                except MemoryError:
                    info["outcome"] = "memory"
                except vloop.Deadlock as e:
                    info["outcome"] = "exc"
                    info["bucket"] = "Deadlock"
                except Exception as e:  # noqa
                    info["outcome"] = "exc"
                    info["bucket"] = _bucket(e)
                info["cpu"] = time.process_time() - t0
                if len(loop.transports) > 3:
                    info["followup"] = "%d datagram endpoints were opened for one request with retries=3" % len(loop.transports)
                else:
                    honest = vagent.Agent(dict(DB))
                    loop.reply = lambda req: honest.handle_or_timeout(req)
                    loop.scripts = [dict(kind="reply", d=0.1)] * 400
                    loop.transmissions = 0
                    loop.transports.clear()
                    try:
                        r = loop.run_until_complete(client.get(vworld.OID(SC)))
                        info["followup"] = "ok" if vworld.observe(r) == WANT else "next valid request returned %r" % (r,)
                    except Exception as e:  # noqa
                        info["followup"] = "next valid request on the same client raised %s: %s" % (type(e).__name__, str(e)[:160])
        finally:
            try:
                loop.close()
            except Exception:  # noqa
                pass
            asyncio.set_event_loop(old if old is not None and not old.is_closed() else None)
    elif path == "trap":
        from puresnmp.api.raw import register_trap_callback

        got = []

        async def cb(trap):
            got.append(trap)

        loop = vloop.VLoop()
        old = vworld._LOOP
        try:
            asyncio.set_event_loop(loop)
            register_trap_callback(cb, listen_address="127.0.0.1", port=0, credentials=vworld.V2C("public"), loop=loop)
            proto = loop.transports[0].protocol
            try:
                proto.datagram_received(mutant, ("192.0.2.9", 5000))
                loop.drain(3)
                info["outcome"] = "ok"
            except vsandbox.HangDetected:
                raise
            except MemoryError:
                info["outcome"] = "memory"
            except Exception as e:  # noqa
                info["outcome"] = "exc"
                info["bucket"] = _bucket(e)
            info["cpu"] = time.process_time() - t0
            n0 = len(got)
            try:
                proto.datagram_received(trap_bytes(), ("192.0.2.9", 5000))
                loop.drain(3)
                _wait_real(loop, lambda: len(got) > n0, 0.3)     # (a listener may decode in a worker task or thread)
                info["followup"] = "ok" if len(got) == n0 + 1 else "valid trap after the datagram was not delivered"
            except Exception as e:  # noqa
                info["followup"] = "valid trap after the datagram raised %s: %s" % (type(e).__name__, e)
        finally:
            try:
                loop.close()
            except Exception:  # noqa
                pass
            asyncio.set_event_loop(old if old is not None and not old.is_closed() else None)
    else:
        st8 = dict(n=0, done=False)

        def mangle(agent, req, resp):
            if st8["done"]:
                return resp
            if path == "disco":
                if req.get("discovery"):
                    st8["done"] = True
                    return mutant
                return resp
            if req.get("discovery"):
                return resp
            st8["done"] = True
            if path == "inner":
                user = agent.users[req["user"]]
                return agent.v3_wrap(req, user, mutant)
            return mutant

        agent, client = vworld.make_world(PROTOS[pk], dict(DB), request_cap=30)
        agent.respond_hook = lambda a, r: (None if st8["done"] else _special(a, r, what)) if path != "inner" else None
        agent.mangle = mangle
        with vclock.fixed(1_700_000_000):
            try:
                vworld.run(_op(client, what, py=(path == "pyresponse")))
                info["outcome"] = "ok"
            except vsandbox.HangDetected:
                raise
            except MemoryError:
                info["outcome"] = "memory"
            except (vagent.AgentInternalError, vagent.CapExceeded) as e:
                info["outcome"] = "exc"
                info["bucket"] = "agent:" + type(e).__name__
            except Exception as e:  # noqa
                info["outcome"] = "exc"
                info["bucket"] = _bucket(e)
            info["cpu"] = time.process_time() - t0
            # the same client must handle the next valid exchange
            accepted_disco = path == "disco" and any(not r.get("discovery") for r in agent.log)
            if not accepted_disco:
                agent.respond_hook = None
                st8["done"] = True
                try:
                    r = vworld.run(client.get(vworld.OID(SC)))
                    info["followup"] = "ok" if vworld.observe(r) == WANT else "next valid request returned %r" % (r,)
                except Exception as e:  # noqa
                    if vworld.f10b_excusable(agent, e):
                        info["followup"] = "ok"
                    else:
                        info["followup"] = "next valid request on the same client raised %s: %s" % (type(e).__name__, str(e)[:160])
            else:
                info["followup"] = "ok"
    info.setdefault("cpu", time.process_time() - t0)
    info["rss_kb"] = resource.getrusage(resource.RUSAGE_SELF).ru_maxrss - rss0
    return info


STUBBORN_CAP = 40


def run_stubborn(case) -> Result:
    """a peer that answers EVERY request of one API call in the same unhelpful way: the call must still end, after a number
    of datagrams that does not depend on the peer's patience"""
    _, pname, what, op = case["base"]
    proto = PROTOS[pname]
    classes = ["path=stubborn", "proto=" + pname, "stubborn=" + what, "op=" + op]
    agent, client = vworld.make_world(proto, dict(DB), request_cap=None)
    st8 = dict(n=0, first=None)

    async def sender(endpoint, data, timeout=None, retries=None, loop=None):
        st8["n"] += 1
        if st8["n"] > STUBBORN_CAP:
            raise vagent.CapExceeded("more than %d datagrams" % STUBBORN_CAP)
        probe = vber.parse_message(bytes(data))
        is_disco = probe["version"] == 3 and not probe.get("user") and not probe.get("engine_id")
        if is_disco:
            return agent.handle_or_timeout(bytes(data))
        if what == "reboot_each":
            agent.reboot()                  # always one restart ahead of what the client last discovered
            return agent.handle_or_timeout(bytes(data))
        if what == "replay_first_report":
            if st8["first"] is None:
                agent.reboot()
                st8["first"] = agent.handle_or_timeout(bytes(data))
            return st8["first"]             # the recorded (authentic) notInTimeWindow report, verbatim
        if what == "same_response":
            if st8["first"] is None:
                st8["first"] = agent.handle_or_timeout(bytes(data))
            return st8["first"]             # the first authentic response, whatever is asked later
        if what == "other_engine_each":
            agent.engine_id = agent.engine_id[:-1] + bytes([(agent.engine_id[-1] + 1) % 256])
            return agent.handle_or_timeout(bytes(data))     # unknownEngineID report for ever
        raise ValueError(what)

    client.sender = sender
    O = vworld.OID

    async def go():
        if op == "get":
            return await client.get(O(SC))
        if op == "set":
            return await client.set(O(SC), vworld.make_value(vber.T_OCTETS, b"x"))
        if op == "walk":
            return [vb async for vb in client.walk(O(SC[:-2]))]
        if op == "walk_warn":
            return [vb async for vb in client.walk(O(SC[:-2]), errors="warn")]
        if op == "bulkwalk":
            return [vb async for vb in client.bulkwalk([O(SC[:-2])], bulk_size=3)]
        raise ValueError(op)

    vsandbox.install_guard()
    outcome = "ok"
    try:
        with vclock.fixed(1_700_000_000, [0.25]), vsandbox.cpu_budget(20):
            try:
                vworld.run(go())
            except vagent.CapExceeded:
                outcome = "cap"
            except RecursionError:
                outcome = "recursion"
            except Exception as e:  # noqa
                outcome = "exc:" + type(e).__name__
    except vsandbox.HangDetected:
        vworld._LOOP = None
        outcome = "hang"
    classes.append("outcome=" + outcome.split(":")[0])
    head = "%s %s against a peer that answers every request with %s" % (pname, op, what)
    if outcome in ("cap", "hang", "recursion"):
        return Result("%s: the call did not end (%s after %d datagrams; cap %d)" % (head, outcome, st8["n"], STUBBORN_CAP), True, classes)
    return Result(None, True, classes, observations={"max_datagrams_against_stubborn_peer": st8["n"]})


class _Overlaps:
    """overlap chains of growing depth in every unauthenticated (or, for 'inner', authenticated) position"""

    def __init__(self, tier):
        self.tier = tier

    def __iter__(self):
        bases = [b for b in BASES(self.tier) if b[0] != "udp"] + [("pyresponse", "v2c", "get"), ("pyresponse", "v2c", "multiget")]
        for base in bases:
            for where in ("value", "list"):
                for k in (1, 2, 6, 10, 14, 18, 22, 26, 31):
                    yield dict(base=list(base), mut=["overlap", k, where])
        # walks: the chain in a binding the walk asked for and in one it did not, with DEBUG logging on and off
        for base in (("response", "v2c", "walk"), ("response", "v3n", "walk"), ("inner", "v3p", "walk")):
            for where in ("value", "foreign"):
                for k in (2, 10, 18, 22, 26, 31):
                    for debug in (False, True):
                        yield dict(base=list(base), mut=["overlap", k, where], debug=debug)


class _OverlapsAt:
    """the chain in place of EVERY field of the message, one at a time (also of authenticated messages: header and security
    parameters are read before anything is verified)"""

    def __init__(self, tier):
        self.tier = tier

    def __iter__(self):
        bases = [b for b in BASES(self.tier) if b[0] not in ("udp", "inner")]
        if self.tier == "quick":
            bases = [b for b in bases if b in (("response", "v2c", "multiget"), ("disco", "v3a", "get"), ("trap", "v2c", "trap"))]
        for base in bases:
            for i in range(40):
                if replace_leaf(base_bytes(tuple(base)), i, b"\x05\x00") is None:
                    break
                for k in ((18,) if self.tier == "quick" else (18, 26)):
                    yield dict(base=list(base), mut=["overlap_at", i, k])


class _Shard:
    def __init__(self, it, k, m):
        self.a = (it, k, m)

    def __iter__(self):
        it, k, m = self.a
        for n, c in enumerate(it):
            if n % m == k:
                yield c


class _Deep:
    """properly nested values of growing depth, with and without DEBUG logging (a user who looks for a problem logs)"""

    def __init__(self, tier):
        self.tier = tier

    def __iter__(self):
        bases = [b for b in BASES(self.tier) if b[0] != "udp"] + [("pyresponse", "v2c", "get")]
        for base in bases:
            for where in ("value", "secparams"):
                for tag in (vber.T_OCTETS, vber.T_SEQ):
                    for depth in (10, 100, 400, 800, 1500):
                        for debug in (False, True):
                            yield dict(base=list(base), mut=["deep", depth, tag, where], debug=debug)


class _Stubborn:
    def __iter__(self):
        for pname in ("v3a", "v3p", "v3n", "v2c"):
            for what in ("reboot_each", "replay_first_report", "same_response", "other_engine_each"):
                if pname in ("v2c", "v3n") and what != "same_response":
                    continue
                for op in ("get", "set", "walk", "walk_warn", "bulkwalk"):
                    yield dict(base=["stubborn", pname, what, op], mut=["stubborn"])


def run_case(case, use_guard=True) -> Result:
    if case["mut"][0] == "stubborn":
        return run_stubborn(case)
    if case["mut"][0] == "history":
        import vrunner as _vr

        tmp = _vr.Stats()
        history_unit(None, tmp, label="replay", n=case["mut"][1], size=case["mut"][2])
        bad = [v for v in tmp.violations if v["case"]["base"] == case["base"]]
        return Result(bad[0]["message"] if bad else None, True, ["path=history"])
    if use_guard:
        vsandbox.install_guard()
    vsandbox.limit_memory(3 << 30)
    base = tuple(case["base"])
    data = base_bytes(base)
    if case["mut"][0] == "overlap_at":
        # an overlap chain in place of the i-th field of the message (version, msgID, flags, engine id, user name, ...)
        mutant = replace_leaf(data, case["mut"][1], vber.tlv(vber.T_SEQ, overlap_chain(case["mut"][2])))
    elif case["mut"][0] == "overlap":
        mutant = overlap_mutant(base, data, case["mut"][1], case["mut"][2])
    elif case["mut"][0] == "deep":
        mutant = deep_mutant(base, data, case["mut"][1], case["mut"][2], case["mut"][3])
    else:
        mutant = mutate(data, case["mut"])
    classes = ["path=" + base[0], "proto=" + base[1], "mut=" + case["mut"][0]]
    if mutant is None:
        return Result(None, False, classes + ["noop"])
    n = len(mutant)
    hits0 = vsandbox.GUARD_HITS[0]
    try:
        with vsandbox.cpu_budget(_budget(n) + 1.0):
            info = deliver(base, mutant, use_guard)
    except vsandbox.HangDetected:
        vworld._LOOP = None
        return Result("%s: processing the %d-octet datagram did not finish within %.1f s of CPU time (datagram %s)" % (
            "/".join(base), n, _budget(n) + 1.0, mutant.hex()[:300]), True, classes + ["HANG"], known=_known_for(base, mutant))
    if vsandbox.GUARD_HITS[0] != hits0:
        classes.append("x690_guard_hit")
    nontrivial = info["outcome"] == "exc" or (case["mut"][0] == "sub")
    if info["bucket"]:
        classes.append("bucket=" + info["bucket"])
    key = hashlib.sha1(("/".join(base)).encode() + mutant).hexdigest()
    head = "%s %r" % ("/".join(base), case["mut"] if case["mut"][0] not in ("raw", "tree") else case["mut"][0])
    if info["outcome"] == "memory":
        return Result("%s: MemoryError while processing a %d-octet datagram (%s)" % (head, n, mutant.hex()[:300]), nontrivial, classes, key=key)
    if info["cpu"] > _budget(n):
        return Result("%s: %.2f s of CPU time for a %d-octet datagram (budget %.2f s) (%s)" % (head, info["cpu"], n, _budget(n), mutant.hex()[:300]),
                      nontrivial, classes, key=key, known=_known_for(base, mutant))
    if info["rss_kb"] > _mem_budget_kb(n):
        return Result("%s: resident memory grew by %d MiB while processing a %d-octet datagram (%s)" % (
            head, info["rss_kb"] // 1024, n, mutant.hex()[:300]), nontrivial, classes, key=key)
    if info["followup"] != "ok":
        return Result("%s: after this datagram (%s, %s) the %s: %s (datagram %s)" % (
            head, info["outcome"], info["bucket"], "listener" if base[0] == "trap" else "client", info["followup"], mutant.hex()[:300]),
            nontrivial, classes, key=key)
    return Result(None, nontrivial, classes, key=key, observations={"max_cpu_s": round(info["cpu"], 4), "max_rss_growth_kb": info["rss_kb"]})


def _is_f20(data):
    """trigger of the known finding x690_indefinite_no_terminator: an octet 0x80 in a LENGTH position (reached by walking the
    TLV structure from the top as a decoder does; security parameters and other OCTET STRINGs that hold a SEQUENCE are
    entered) with no 00 00 after it"""
    def walk(start, end, depth):
        pos = start
        while pos + 2 <= end and depth < 60:
            tag = data[pos]
            first = data[pos + 1]
            if first == 0x80:
                return data.find(b"\x00\x00", pos + 2) == -1
            if first < 0x80:
                cs, n = pos + 2, first
            else:
                k = first & 0x7F
                if pos + 2 + k > end:
                    return False
                cs, n = pos + 2 + k, int.from_bytes(data[pos + 2:pos + 2 + k], "big")
            ce = min(cs + n, end)      # (never beyond the enclosing TLV: every octet is visited once)
            if (tag & 0x20 or (tag == 0x04 and ce - cs >= 2 and data[cs] == 0x30)) and walk(cs, ce, depth + 1):
                return True
            pos = cs + n
        return False
    return walk(0, len(data), 0)


def _has_overlap(data, start=0, end=None, depth=0):
    """trigger of the known finding x690_overlapping_children: some TLV announces content that ends beyond the end of the
    constructed TLV it sits in"""
    end = len(data) if end is None else end
    pos = start
    while pos + 2 <= end and depth < 200:
        tag = data[pos]
        first = data[pos + 1]
        if first < 0x80:
            cs, n = pos + 2, first
        else:
            k = first & 0x7F
            if k == 0 or pos + 2 + k > end:
                return False
            cs, n = pos + 2 + k, int.from_bytes(data[pos + 2:pos + 2 + k], "big")
        if cs + n > end:
            return depth > 0 and cs + n <= len(data)
        if (tag & 0x20 or (tag == 0x04 and n >= 2 and data[cs] == 0x30)) and _has_overlap(data, cs, cs + n, depth + 1):
            return True      # (msgSecurityParameters is an OCTET STRING that holds a SEQUENCE)
        pos = cs + n
    return False


def _known_for(base, mutant):
    if _is_f20(mutant):
        return "x690_indefinite_no_terminator"
    if _has_overlap(mutant):
        # whichever field of the message holds such a structure: puresnmp converts header fields, security parameters,
        # communities ... of a received message before it can know anything about the sender
        return "x690_overlapping_children"
    return None


def _replay_unguarded(case):
    vsandbox.remove_guard()
    try:
        r = run_case(case, use_guard=False)
        return r.violation
    finally:
        vsandbox.install_guard()


def replay_known(case) -> Result:
    """the canned replay runs WITHOUT the guard, in a child process with hard limits"""
    out = vsandbox.run_isolated(_replay_unguarded, case, cpu_s=8, mem=2 << 30, wall_s=40)
    if out[0] in ("hang", "memory"):
        return Result("unguarded: the process had to be killed (%s) while the client processed the datagram" % out[0], True, ["known"])
    if out[0] == "ok" and out[1]:
        return Result(out[1], True, ["known"])
    return Result(None, False, ["known"])


def replay(case) -> Result:
    return run_case(case)


class _Muts:
    def __init__(self, base, kind, k, m):
        self.a = (base, kind, k, m)

    def __iter__(self):
        base, kind, k, m = self.a
        data = base_bytes(base)
        n = 0
        if kind == "flip":
            for bit in range(len(data) * 8):
                n += 1
                if n % m == k:
                    yield dict(base=list(base), mut=["flip", bit])
            for cut in range(len(data)):
                n += 1
                if n % m == k:
                    yield dict(base=list(base), mut=["trunc", cut])
        else:
            for off in header_octets(data):
                for v in range(256):
                    n += 1
                    if n % m == k:
                        yield dict(base=list(base), mut=["sub", off, v])


LIES = ["ok", "ok", "ok", "indef", "indef_term", "huge", "long8", "ff", "plus", "minus"]
TAGS = [0x30, 0x30, 0x02, 0x04, 0x05, 0x06, 0xA2, 0xA8, 0xA7, 0x40, 0x41, 0x43, 0x46, 0x80, 0x82, 0x1F, 0xFF, 0x24, 0x3F]


def tree(depth=0):
    leaf = st.tuples(st.sampled_from(TAGS), st.sampled_from(LIES), st.binary(max_size=24).map(bytes.hex)).map(list)
    deep = st.tuples(st.sampled_from([0x30, 0xA2, 0x24]), st.sampled_from(LIES),
                     st.fixed_dictionaries(dict(nest=st.sampled_from([10, 200, 1000, 5000]), tag=st.sampled_from([0x30, 0xA2, 0x24])))).map(list)
    wide = st.tuples(st.sampled_from([0x30, 0x30, 0xA2, 0x04]), st.sampled_from(["ok", "ok", "ok", "plus"]),
                     st.fixed_dictionaries(dict(wide=st.sampled_from([50, 500, 2000, 8000, 20000]),
                                                item=st.sampled_from(["0500", "020101", "0400", "30020500", "3000", "06012b"])))).map(list)
    if depth >= 3:
        return leaf
    return st.one_of(leaf, leaf, deep, wide,
                     st.tuples(st.sampled_from([0x30, 0x30, 0xA2, 0xA8, 0x04]), st.sampled_from(LIES),
                               st.lists(st.deferred(lambda: tree(depth + 1)), max_size=5)).map(list))


@st.composite
def generated(draw, tier):
    base = draw(st.sampled_from(BASES(tier)))
    kind = draw(st.sampled_from(["raw", "tree", "tree", "msgtree", "disco_fields", "pdu_fields"]))
    if kind == "pdu_fields":
        wide = st.one_of(st.sampled_from([b"\x00", b"\x01", b"\x02", b"\x05", b"\x12", b"\xff", b"\x80"]),
                         st.binary(min_size=1, max_size=4), st.binary(min_size=5, max_size=12),
                         st.sampled_from([b"\x00\xc0\x00\x00", b"\x7f\xff\xff\xff", b"\x01\x00\x00\x00", b"\x00\x10\x00\x00",
                                          b"\x7f" + b"\xff" * 7, b"\x00\xff\xff\xff\xff", b"\x00\x01\x00\x00\x00\x00"]))
        pbase = draw(st.sampled_from([b for b in BASES(tier) if b[0] in ("disco", "response")]))
        v = {"v1": 0, "v2c": 1}.get(pbase[1], 3)
        return dict(base=list(pbase), mut=["pdu_fields", dict(v=v, tag=draw(st.sampled_from([0xA2, 0xA2, 0xA8])),
                                                              rid=draw(st.one_of(st.just(b"\x65\x53\xf1\x00"), wide)).hex(),
                                                              es=draw(wide).hex(), ei=draw(wide).hex(), nvb=draw(st.integers(0, 3)))])
    if kind == "disco_fields":
        # a discovery Report that is well-formed except that its integers have arbitrary width / sign / size
        big = st.one_of(st.binary(min_size=1, max_size=4), st.binary(min_size=5, max_size=16),
                        st.sampled_from([b"\x7f" + b"\xff" * 11, b"\xff" * 9, b"\x00" * 12 + b"\x01", b"\x7f\xff\xff\xff", b"\x00\x80\x00\x00\x00"]))
        dbase = draw(st.sampled_from([b for b in BASES(tier) if b[0] == "disco"]))
        return dict(base=list(dbase), mut=["disco_fields", dict(engine=draw(st.binary(min_size=0, max_size=40)).hex(),
                                                               boots=draw(big).hex(), time=draw(big).hex(), counter=draw(big).hex())])
    if kind == "raw":
        return dict(base=list(base), mut=["raw", draw(st.binary(max_size=2048)).hex()])
    if kind == "tree":
        return dict(base=list(base), mut=["tree", draw(tree())])
    # a plausible message skeleton whose parts are generated trees
    parts = [[0x02, "ok", "01"], [0x04, draw(st.sampled_from(LIES)), b"public".hex()], draw(tree(1))]
    if base[1].startswith("v3"):
        parts = [[0x02, "ok", "03"], [0x30, draw(st.sampled_from(LIES)), [[0x02, "ok", "01"], [0x02, "ok", "00ffe3"], [0x04, "ok", "00"], [0x02, "ok", "03"]]],
                 [0x04, draw(st.sampled_from(LIES)), [draw(tree(2))]], draw(tree(1))]
    if draw(st.integers(0, 3)) == 0:
        # a well-formed frame around one wide, flat sequence (security parameters, scoped PDU or varbind list)
        n = draw(st.sampled_from([200, 1000, 4000, 12000]))
        item = draw(st.sampled_from(["0500", "020101", "0400", "3000"]))
        widenode = [0x30, "ok", dict(wide=n, item=item)]
        if base[1].startswith("v3"):
            where = draw(st.sampled_from(["secparams", "scoped", "header"]))
            hdr = [0x30, "ok", [[0x02, "ok", "01"], [0x02, "ok", "00ffe3"], [0x04, "ok", "00"], [0x02, "ok", "03"]]]
            usm = [0x30, "ok", [[0x04, "ok", "80001f888076657269662d6167656e74"], [0x02, "ok", "03"], [0x02, "ok", "03e8"],
                                [0x04, "ok", ""], [0x04, "ok", ""], [0x04, "ok", ""]]]
            scoped = [0x30, "ok", [[0x04, "ok", ""], [0x04, "ok", ""], [0xA8, "ok", [[0x02, "ok", "01"], [0x02, "ok", "00"], [0x02, "ok", "00"], widenode]]]]
            parts = [[0x02, "ok", "03"], widenode if where == "header" else hdr,
                     [0x04, "ok", [widenode if where == "secparams" else usm]], scoped if where != "scoped" else widenode]
        else:
            parts = [[0x02, "ok", "01" if base[1] == "v2c" else "00"], [0x04, "ok", b"public".hex()],
                     [0xA2 if base[0] != "trap" else 0xA7, "ok", [[0x02, "ok", "6553f100"], [0x02, "ok", "00"], [0x02, "ok", "00"], widenode]]]
        return dict(base=list(base), mut=["tree", [0x30, "ok", parts]])
    return dict(base=list(base), mut=["tree", [0x30, draw(st.sampled_from(LIES)), parts]])


FUZZ_BASES = [b for b in BASES("thorough")]


def fuzz_case(data: bytes):
    """decode fuzzer bytes: the first octet selects the entry path / base, the rest is the datagram"""
    if not data:
        return None
    base = FUZZ_BASES[data[0] % len(FUZZ_BASES)]
    return dict(base=list(base), mut=["raw", data[1:].hex()])


def fuzz_corpus():
    return [bytes([i]) + base_bytes(b) for i, b in enumerate(FUZZ_BASES)]


def history_unit(check, stats, *, label, known_ids=(), n=150, size=20000):
    """a HISTORY of datagrams on one client: what stays allocated afterwards must not grow with the number of datagrams
    (bounded by a small multiple of ONE datagram's size)"""
    import gc
    import tracemalloc

    vsandbox.install_guard()
    t0 = time.time()
    kinds = ["error_response", "big_response", "malformed"]
    for kind in kinds:
        agent, client = vworld.make_world(PROTOS["v2c"], dict(DB), request_cap=None)
        st8 = dict(n=0)

        def hook(a, req, kind=kind, st8=st8):
            pdu = req["pdu"]
            st8["n"] += 1
            pad = bytes([65 + st8["n"] % 26]) * size
            if kind == "error_response":
                vbs = [((1, 3, 6, 1, 2, 1, 1, 5, st8["n"]), vber.T_OCTETS, pad)]
                return a.community_response(1, pdu["rid"], 5, 1, vbs)
            if kind == "big_response":
                return a.community_response(1, pdu["rid"], 0, 0, [(SC, vber.T_OCTETS, pad)])
            good = a.community_response(1, pdu["rid"], 0, 0, [(SC, vber.T_OCTETS, pad)])
            return good[:len(good) - 7 - st8["n"] % 50]

        agent.respond_hook = hook

        def one():
            try:
                vworld.run(client.get(vworld.OID(SC)))
            except Exception:  # noqa
                pass
            del agent.log[:]        # the harness itself must not keep the datagrams alive

        with vclock.fixed(1_700_000_000):
            for _ in range(10):
                one()
            gc.collect()
            tracemalloc.start()
            base = tracemalloc.get_traced_memory()[0]
            for _ in range(n):
                one()
            gc.collect()
            retained = tracemalloc.get_traced_memory()[0] - base
            tracemalloc.stop()
        case = dict(base=["history", "v2c", kind], mut=["history", n, size])
        budget = 16 * size + 256 * 1024
        res_classes = ["path=history", "history=" + kind]
        if retained > budget:
            res = Result("after a history of %d %s datagrams of %d octets on one client %d KiB stay allocated (budget %d KiB = 16 x one "
                         "datagram + 256 KiB): memory grows with the number of datagrams received" % (
                             n, kind, size, retained // 1024, budget // 1024), True, res_classes)
        else:
            res = Result(None, True, res_classes, observations={"max_retained_after_history_kb": retained // 1024})
        stats.record(case, res)
        stats.evaluations += n - 1
        if res.violation:
            stats.violations.append(dict(case=case, message=res.violation, unit=label))
    # SNMPv3: responses that claim ever-changing authoritative engine ids / user names with a digest that cannot verify.
    # Judged by GROWTH: what stays allocated after 3n datagrams against what stayed after n (a bounded cache is no leak).
    for kind in ("v3_foreign_engines", "v3_foreign_engines_small", "v3_foreign_users"):
        agent, client = vworld.make_world(PROTOS["v3a"], dict(DB), request_cap=None)
        st8 = dict(n=0)

        def mangle(a, req, resp, kind=kind, st8=st8):
            if req.get("discovery"):
                return resp
            st8["n"] += 1
            tagv = st8["n"].to_bytes(4, "big")
            body = vber.enc_scoped_pdu(a.engine_id, b"", vber.enc_pdu(vber.PDU_RESPONSE, req["pdu"]["rid"], 0, 0, [(SC, vber.T_OCTETS, b"x")]))
            if kind == "v3_foreign_engines":
                return a.build_v3(req["msg_id"], 1, req["user"], body, digest=b"\x01" * 12,
                                  engine_id=b"\x80\x00\x1f\x88\x04" + tagv + bytes([65 + st8["n"] % 26]) * size)
            if kind == "v3_foreign_engines_small":
                return a.build_v3(req["msg_id"], 1, req["user"], body, digest=b"\x01" * 12, engine_id=b"\x80\x00\x1f\x88\x04" + tagv)
            return a.build_v3(req["msg_id"], 1, b"u" + tagv.hex().encode() + b"y" * size, body, digest=b"\x01" * 12)

        agent.mangle = mangle

        def one(client=client, agent=agent):
            try:
                vworld.run(client.get(vworld.OID(SC)))
            except Exception:  # noqa
                pass
            del agent.log[:]

        m1 = max(n, 300)         # more than any reasonable bounded cache holds, so that a bound shows as a plateau
        with vclock.fixed(1_700_000_000):
            for _ in range(10):
                one()
            gc.collect()
            tracemalloc.start()
            base = tracemalloc.get_traced_memory()[0]
            for _ in range(m1):
                one()
            gc.collect()
            first = tracemalloc.get_traced_memory()[0] - base
            for _ in range(2 * m1):
                one()
            gc.collect()
            second = tracemalloc.get_traced_memory()[0] - base
            tracemalloc.stop()
        case = dict(base=["history", "v3a", kind], mut=["history", n, size])
        res_classes = ["path=history", "history=" + kind]
        per = size if kind != "v3_foreign_engines_small" else 64
        grow = second - first
        # twice as many further datagrams: a leak grows by about 2 x m1 x (what one datagram leaves behind)
        if grow > 0.5 * m1 * per and grow > 24 * 1024:
            res = Result("history of refused %s responses (%d octets each) on one SNMPv3 client: %d KiB stay allocated after %d datagrams, "
                         "%d KiB after %d -- memory grows with the number of datagrams received" % (
                             kind, per, first // 1024, m1, second // 1024, 3 * m1), True, res_classes)
        else:
            res = Result(None, True, res_classes, observations={"max_retained_after_history_kb": second // 1024})
        stats.record(case, res)
        stats.evaluations += 3 * m1 - 1
        if res.violation:
            stats.violations.append(dict(case=case, message=res.violation, unit=label))
    # the same for a trap listener: refused datagrams that differ from one another in the part a look-up could be keyed on
    from puresnmp.api.raw import register_trap_callback

    for kind in ("trap_unknown_version", "trap_foreign_community", "trap_garbage_pdu"):
        got = []

        async def cb(trap, got=got):
            got.append(1)

        loop = vloop.VLoop()
        old = vworld._LOOP
        try:
            asyncio.set_event_loop(loop)
            register_trap_callback(cb, listen_address="127.0.0.1", port=0, credentials=vworld.V2C("public"), loop=loop)
            proto = loop.transports[0].protocol
            st8 = dict(n=0)
            good = trap_bytes()

            def one(proto=proto, st8=st8, kind=kind):
                st8["n"] += 1
                pad = st8["n"].to_bytes(4, "big") + bytes([65 + st8["n"] % 26]) * size
                if kind == "trap_unknown_version":
                    # the first element (msgVersion) is an over-long INTEGER that differs every time
                    data = vber.tlv(vber.T_SEQ, vber.tlv(vber.T_INT, b"\x01" + pad) + vber.tlv(vber.T_OCTETS, b"public") + _trap_pdu())
                elif kind == "trap_foreign_community":
                    data = vber.tlv(vber.T_SEQ, vber.tlv(vber.T_INT, b"\x01") + vber.tlv(vber.T_OCTETS, pad) + _trap_pdu())
                else:
                    data = vber.tlv(vber.T_SEQ, vber.tlv(vber.T_INT, b"\x01") + vber.tlv(vber.T_OCTETS, b"public") + vber.tlv(0xA7, pad))
                try:
                    proto.datagram_received(data, ("192.0.2.9", 5000))
                    loop.drain(2)
                except Exception:  # noqa
                    pass
                del loop.callback_errors[:]

            for _ in range(10):
                one()
            gc.collect()
            tracemalloc.start()
            base = tracemalloc.get_traced_memory()[0]
            for _ in range(n):
                one()
            gc.collect()
            retained = tracemalloc.get_traced_memory()[0] - base
            tracemalloc.stop()
            n0 = len(got)
            try:
                proto.datagram_received(good, ("192.0.2.9", 5000))
                loop.drain(3)
                _wait_real(loop, lambda: len(got) > n0, 0.5)
            except Exception:  # noqa
                pass
            delivered_after = len(got) == n0 + 1
        finally:
            try:
                loop.close()
            except Exception:  # noqa
                pass
            asyncio.set_event_loop(old if old is not None and not old.is_closed() else None)
        case = dict(base=["history", "v2c", kind], mut=["history", n, size])
        budget = 16 * size + 256 * 1024
        res_classes = ["path=history", "history=" + kind]
        if retained > budget:
            res = Result("after a history of %d refused %s datagrams of %d octets at one trap listener %d KiB stay allocated (budget %d KiB "
                         "= 16 x one datagram + 256 KiB): memory grows with the number of datagrams received" % (
                             n, kind, size, retained // 1024, budget // 1024), True, res_classes)
        elif not delivered_after:
            res = Result("after a history of %d refused %s datagrams the listener no longer delivers a valid notification" % (n, kind),
                         True, res_classes)
        else:
            res = Result(None, True, res_classes, observations={"max_retained_after_history_kb": retained // 1024})
        stats.record(case, res)
        stats.evaluations += n - 1
        if res.violation:
            stats.violations.append(dict(case=case, message=res.violation, unit=label))
    stats.units.append(dict(unit=label, kind="history", datagrams=6 * n, wall_s=round(time.time() - t0, 2)))


def units(tier, seed):
    us = [Unit("history", history_unit, label="history", n=150 if tier == "quick" else 600),
          Unit("stubborn", enumeration_unit, cases=_Stubborn(), label="stubborn", exhaustive=False),
          Unit("overlaps", enumeration_unit, cases=_Overlaps(tier), label="overlaps", exhaustive=False, stop_after=40),
          ] + [Unit("overlaps-at-%d" % k, enumeration_unit, cases=_Shard(_OverlapsAt(tier), k, 6), label="overlaps-at-%d" % k,
                    exhaustive=False, stop_after=40) for k in range(6)] + [
          Unit("deep-0", enumeration_unit, cases=_Shard(_Deep(tier), 0, 2), label="deep-0", exhaustive=False, stop_after=40),
          Unit("deep-1", enumeration_unit, cases=_Shard(_Deep(tier), 1, 2), label="deep-1", exhaustive=False, stop_after=40)]
    if tier == "thorough":
        import vfuzz

        for k, corpus in enumerate((fuzz_corpus(), [], fuzz_corpus())):
            us.append(Unit("atheris-%d" % k, vfuzz.fuzz_unit, mode="c20", runs=60000, seed=shard_seed(seed, 50 + k),
                           label="atheris-%d%s" % (k, "-empty-corpus" if not corpus else ""), corpus=corpus, max_len=1600, wall_s=900))
    for base in BASES(tier):
        nm = "-".join(base)
        for k in range(2):
            us.append(Unit("flips-%s-%d" % (nm, k), enumeration_unit, cases=_Muts(base, "flip", k, 2),
                           label="flips-%s-%d" % (nm, k), sample_every=401))
        if base[0] == "udp":
            continue     # same decoder as the response path: flips + truncations (incl. the empty datagram) suffice
        m = 4 if tier == "quick" else 8
        for k in range(m):
            us.append(Unit("hdr-%s-%d" % (nm, k), enumeration_unit, cases=_Muts(base, "sub", k, m),
                           label="hdr-%s-%d" % (nm, k), sample_every=2003))
    n = 150 if tier == "quick" else 5000
    for sh in range(8 if tier == "quick" else 16):
        us.append(Unit("gen-%d" % sh, hypothesis_unit, strategy=generated(tier), examples=n, seed=shard_seed(seed, sh),
                       label="gen-%d" % sh))
    return us


def finish(stats, tier):
    buckets = sorted(k[7:] for k in stats.classes if k.startswith("bucket="))
    stats.observations["distinct_exception_buckets"] = len(buckets)
    stats.observations["exception_buckets"] = buckets[:80]
    for k in [k for k in stats.classes if k.startswith("bucket=")]:
        del stats.classes[k]
