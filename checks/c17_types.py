"""C17 -- SNMP application types keep their numeric and conversion semantics.
DESIGN.md section 3, C17."""
from __future__ import annotations

import ipaddress
import time
from datetime import timedelta

from hypothesis import strategies as st

import vber
import vstrategies as vs
import vworld
from vrunner import Result, Unit, enumeration_unit, hypothesis_unit, shard_seed

ID = "C17"
LEVEL = "exploration"
TECHNIQUE = ("exhaustive enumeration of dense value prefixes (TimeTicks 0..2^22 / 2^26, all values within 2^10 of every "
             "power of two, the top 2^16 values) + Hypothesis over the full ranges; oracles are arithmetic laws "
             "(wrap modulo 2^32/2^64, clamp at 0, 10 ms per tick) and round trips through x690 and the independent codec")
RULE = ("cases: ticks v (three conversion laws + encode/decode), timedelta of u microseconds (floor or nearest tick), "
        "Counter/Counter64 built from any integer in -2^70..2^70, IpAddress a (32-bit; strided over the whole range plus all 24^4 addresses whose octets are characters of [0-9a-fA-F.:]), unsigned decode of content octets "
        "with and without leading zero for Counter/Gauge/TimeTicks/Counter64, wire delivery through Client.get / "
        "PyWrapper.get; non-trivial = value within 2 of a power of two, or a tick count whose v/100.0*100 is not v in "
        "binary floating point, or a wrapped / clamped counter, or content with the top bit set; distinct = distinct "
        "values (ranges are distinct by construction, generated cases by SHA-1 of the case)")
ASSUMPTIONS = [
    "a timedelta that is not a whole number of ticks may convert to the floor or to the nearest tick",
    "TimeTicks / Counter / Gauge constructed from an out-of-range integer are only specified for Counter/Counter64 (wrap/clamp)",
    "4- and 8-octet unsigned content with the top bit set (as devices emit it) decodes as non-negative",
]
EXHAUSTIVE = lambda tier: ("TimeTicks 0..2^%d, +-2^10 around every 2^k (k<=32), 2^32-2^16..2^32-1: all three conversion "
                           "laws and the encode/decode round trip" % (22 if tier == "quick" else 26))

from puresnmp.types import Counter, Counter64, Gauge, IpAddress, Opaque, TimeTicks  # noqa: E402
from x690 import decode as x_decode  # noqa: E402

TEN_MS = timedelta(milliseconds=10)
_TYPES = {vber.T_COUNTER: Counter, vber.T_GAUGE: Gauge, vber.T_TICKS: TimeTicks, vber.T_COUNTER64: Counter64}


def _near_pow2(v: int) -> bool:
    if v <= 2:
        return True
    b = v.bit_length()
    return v - (1 << (b - 1)) <= 2 or (1 << b) - v <= 2


def _float_odd(v: int) -> bool:
    return (v / 100.0) * 100.0 != v


def check_ticks(v: int, wire: bool = True):
    """None or a message."""
    x = TimeTicks(v)
    if x.value != v:
        return "TimeTicks(%d).value == %r" % (v, x.value)
    p = x.pythonize()
    want = v * TEN_MS
    if p != want or type(p) is not timedelta:
        return "TimeTicks(%d).pythonize() == %r, expected %r" % (v, p, want)
    back = TimeTicks(p).value
    if back != v:
        return "TimeTicks(TimeTicks(%d).pythonize()).value == %r (a tick %s)" % (v, back, "lost" if back < v else "gained")
    back2 = TimeTicks(timedelta(milliseconds=10 * v)).value
    if back2 != v:
        return "TimeTicks(timedelta(milliseconds=%d)).value == %r" % (10 * v, back2)
    if wire:
        raw = bytes(x)
        try:
            tag, content = vber.read_one(raw)
        except vber.BerError as e:
            return "bytes(TimeTicks(%d)) = %s is not BER: %s" % (v, raw.hex(), e)
        if tag != vber.T_TICKS or vber.dec_int(content, signed=False) != v:
            return "bytes(TimeTicks(%d)) = %s does not encode TimeTicks %d" % (v, raw.hex(), v)
        y, _ = x_decode(raw)
        if type(y) is not TimeTicks or y.value != v:
            return "decode(bytes(TimeTicks(%d))) == %r" % (v, y)
    return None


def ticks_range_unit(check, stats, *, ranges, label, known_ids=(), wire_every=1):
    t0 = time.time()
    n = 0
    nt = 0
    bad = 0
    for lo, hi in ranges:
        for v in range(lo, hi):
            msg = check_ticks(v, wire=(v % wire_every == 0))
            n += 1
            if _float_odd(v) or _near_pow2(v):
                nt += 1
            if msg is not None:
                stats.violations.append(dict(case=dict(k="ticks", v=v), message=msg, unit=label))
                bad += 1
                if bad >= 3:
                    break
        if bad >= 3:
            break
    stats.evaluations += n
    stats.extra_nontrivial += nt
    stats.classes["ticks_enumerated"] = stats.classes.get("ticks_enumerated", 0) + n
    if not bad:
        stats.exhaustive_units += 1
    if ranges and len(stats.samples) < 2:
        stats.samples.append((10, dict(k="ticks_range", lo=ranges[0][0], hi=ranges[0][1])))
    stats.units.append(dict(unit=label, kind="enumeration", cases=n, exhaustive=not bad,
                            ranges=[list(r) for r in ranges[:4]], wall_s=round(time.time() - t0, 2)))


def run_case(case) -> Result:
    k = case["k"]
    cls = ["k=" + k]
    if k == "ticks":
        v = case["v"]
        return Result(check_ticks(v), _float_odd(v) or _near_pow2(v), cls, key=("t", v))
    if k == "td":
        us = case["us"]
        got = TimeTicks(timedelta(microseconds=us)).value
        lo = us // 10000
        ok = got in (lo, (us + 5000) // 10000)
        nt = us % 10000 != 0
        return Result(None if ok else "TimeTicks(timedelta(microseconds=%d)).value == %r, expected %d (or nearest)" % (us, got, lo),
                      nt, cls + (["non_multiple"] if nt else []))
    if k == "counter":
        bits, n = case["bits"], case["n"]
        T = Counter if bits == 32 else Counter64
        want = 0 if n < 0 else n % (1 << bits)
        x = T(n)
        nt = n < 0 or n >= (1 << bits) or _near_pow2(abs(n))
        cls += ["wrapped"] if n >= (1 << bits) else ["clamped"] if n < 0 else []
        if x.value != want:
            return Result("%s(%d).value == %r, expected %d" % (T.__name__, n, x.value, want), nt, cls)
        raw = bytes(x)
        tag = vber.T_COUNTER if bits == 32 else vber.T_COUNTER64
        try:
            t, content = vber.read_one(raw)
            dec = vber.dec_int(content, signed=False)
        except vber.BerError as e:
            return Result("bytes(%s(%d)) = %s is not BER: %s" % (T.__name__, n, raw.hex(), e), nt, cls)
        if t != tag or dec != want:
            return Result("bytes(%s(%d)) = %s does not encode %d" % (T.__name__, n, raw.hex(), want), nt, cls)
        y, _ = x_decode(raw)
        if type(y) is not T or y.value != want:
            return Result("decode(bytes(%s(%d))) == %r" % (T.__name__, n, y), nt, cls)
        return Result(None, nt, cls)
    if k == "ip":
        a = ipaddress.IPv4Address(case["a"])
        x = IpAddress(a)
        nt = _near_pow2(case["a"]) or case["a"] >= 2 ** 31
        if x.pythonize() != a or type(x.pythonize()) is not ipaddress.IPv4Address:
            return Result("IpAddress(%s).pythonize() == %r" % (a, x.pythonize()), nt, cls)
        raw = bytes(x)
        try:
            t, content = vber.read_one(raw)          # (any definite length form)
        except vber.BerError as e:
            return Result("bytes(IpAddress(%s)) = %s is not BER: %s" % (a, raw.hex(), e), nt, cls)
        if t != vber.T_IPADDR or content != a.packed:
            return Result("bytes(IpAddress(%s)) == %s, expected tag 40 and content %s" % (a, raw.hex(), a.packed.hex()), nt, cls)
        y, _ = x_decode(raw)
        if type(y) is not IpAddress or y.value != a or y.pythonize() != a:
            return Result("decode(bytes(IpAddress(%s))) == %r" % (a, y), nt, cls)
        return Result(None, nt, cls)
    if k == "udec":
        tag, content = case["tag"], bytes.fromhex(case["hex"])
        T = _TYPES[tag]
        want = int.from_bytes(content, "big")
        nt = content[0] >= 0x80
        cls += ["top_bit"] if nt else []
        raw = vber.tlv(tag, content)
        y, _ = x_decode(raw)
        if type(y) is not T or y.value != want or y.value < 0 or y.pythonize() is None:
            return Result("decode(%s) == %r, expected %s(%d)" % (raw.hex(), y, T.__name__, want), nt, cls)
        if tag == vber.T_TICKS:
            if y.pythonize() != want * TEN_MS:
                return Result("decode(%s).pythonize() == %r" % (raw.hex(), y.pythonize()), nt, cls)
        elif y.pythonize() != want:
            return Result("decode(%s).pythonize() == %r" % (raw.hex(), y.pythonize()), nt, cls)
        return Result(None, nt, cls)
    if k == "rt":
        tag, content = case["tag"], bytes.fromhex(case["hex"])
        name, val = vber.typed_value(tag, content)
        obj = vworld.make_value(tag, content)
        raw = bytes(obj)
        nt = (isinstance(val, int) and _near_pow2(abs(val))) or len(content) > 4
        try:
            t, c = vber.read_one(raw)
            back = vber.typed_value(t, c)
        except vber.BerError as e:
            return Result("bytes(%r) = %s is not BER: %s" % (obj, raw.hex(), e), nt, cls + [name])
        if back != (name, val):
            return Result("bytes(%r) = %s reads back as %r" % (obj, raw.hex(), back), nt, cls + [name])
        y, _ = x_decode(raw)
        if vworld.observe(y) != (name, val):
            return Result("decode(bytes(%r)) == %r" % (obj, y), nt, cls + [name])
        return Result(None, nt, cls + [name])
    if k == "wire":
        # the value travels agent -> client -> caller (raw and pythonic API)
        tag, content = case["tag"], bytes.fromhex(case["hex"])
        oid = (1, 3, 6, 1, 4, 1, 5, 1, 0)
        agent, client = vworld.make_world(vworld.V2C_PROTO, {oid: (tag, content)})
        name, val = vber.typed_value(tag, content)
        nt = content[:1] >= b"\x80" or (isinstance(val, int) and _near_pow2(val))
        try:
            got = vworld.run(client.get(vworld.OID(oid)))
        except Exception as e:  # noqa
            return Result("Client.get raised %s: %s for the well-formed value %s" % (type(e).__name__, e, vber.tlv(tag, content).hex()), nt, cls)
        if vworld.observe(got) != (name, val):
            return Result("Client.get returned %r for %s" % (got, vber.tlv(tag, content).hex()), nt, cls)
        try:
            py = vworld.run(vworld.PyWrapper(client).get(vagent_S(oid)))
        except Exception as e:  # noqa
            return Result("PyWrapper.get raised %s: %s for the well-formed value %s" % (type(e).__name__, e, vber.tlv(tag, content).hex()), nt, cls)
        want = vber.pythonized(tag, content)
        if py != want or type(py) is not type(want):
            return Result("PyWrapper.get returned %r for %s, expected %r" % (py, vber.tlv(tag, content).hex(), want), nt, cls)
        return Result(None, nt, cls)
    raise ValueError(k)


def vagent_S(t):
    return ".".join(str(x) for x in t)


def _u_content(draw, nbytes_max):
    """content octets of an unsigned value, in canonical or device form."""
    n = draw(st.integers(1, nbytes_max))
    body = draw(st.binary(min_size=n, max_size=n))
    form = draw(st.sampled_from(["device", "device", "canonical"]))
    if form == "canonical":
        v = int.from_bytes(body, "big")
        return vber.int_content(v)
    return body


@st.composite
def cases(draw):
    k = draw(st.sampled_from(["ticks", "td", "counter", "counter", "ip", "udec", "udec", "rt", "wire"]))
    if k == "ticks":
        return dict(k=k, v=draw(vs.uint32()))
    if k == "td":
        return dict(k=k, us=draw(st.one_of(st.integers(0, 10 ** 7), st.integers(0, (2 ** 32 - 1) * 10000),
                                            st.builds(lambda t, d: max(0, t * 10000 + d), vs.uint32().map(lambda x: min(x, 2 ** 32 - 2)),
                                                      st.sampled_from([-1, 0, 1, 4999, 5000, 5001, 9999])))))
    if k == "counter":
        bits = draw(st.sampled_from([32, 64]))
        m = 1 << bits
        n = draw(st.one_of(
            st.integers(-2 ** 70, 2 ** 70),
            st.integers(-5, 300),
            st.builds(lambda q, d: q * m + d, st.integers(-3, 70), st.integers(-3, 3)),
            st.builds(lambda kk, d: (1 << kk) + d, st.integers(0, 70), st.integers(-2, 2)),
        ))
        return dict(k=k, bits=bits, n=n)
    if k == "ip":
        return dict(k=k, a=draw(st.one_of(vs.uint32(), st.builds(lambda a, b: (a << 24) | b, st.integers(0, 255),
                                                                  st.sampled_from([0, 1, 255, 0xFFFFFF, 0xFFFFFE, 0x010203])))))
    if k == "udec":
        tag = draw(st.sampled_from(sorted(_TYPES)))
        nmax = 8 if tag == vber.T_COUNTER64 else 4
        body = _u_content(draw, nmax)
        if draw(st.booleans()):
            # the two forms the property names: exactly 4 / 8 octets with the top bit set
            body = bytes([draw(st.integers(0x80, 0xFF))]) + draw(st.binary(min_size=nmax - 1, max_size=nmax - 1))
        return dict(k=k, tag=tag, hex=body.hex())
    tag, h = draw(vs.value(tags=[vber.T_IPADDR, vber.T_COUNTER, vber.T_GAUGE, vber.T_TICKS, vber.T_OPAQUE,
                                 vber.T_COUNTER64], max_octets=300))
    if k == "wire" and tag in _TYPES and draw(st.booleans()):
        nmax = 8 if tag == vber.T_COUNTER64 else 4
        h = (bytes([draw(st.integers(0x80, 0xFF))]) + draw(st.binary(min_size=nmax - 1, max_size=nmax - 1))).hex()
    return dict(k=k, tag=tag, hex=h)


def _ip_cases(stride, offset):
    for a in range(offset, 2 ** 32, stride):
        yield dict(k="ip", a=a)


def _boundary_ranges():
    out = []
    for kbit in range(11, 33):
        c = 1 << kbit
        out.append((c - 1024, min(c + 1024, 2 ** 32)))
    out.append((2 ** 32 - 2 ** 16, 2 ** 32))
    return out


def units(tier, seed):
    top = 22 if tier == "quick" else 26
    nshard = 16 if tier == "quick" else 64
    step = (1 << top) // nshard
    us = []
    for sh in range(nshard):
        us.append(Unit("ticks-%d" % sh, ticks_range_unit, ranges=[(sh * step, (sh + 1) * step)],
                       label="ticks-%d" % sh, wire_every=7 if tier == "thorough" else 3))
    us.append(Unit("ticks-boundaries", ticks_range_unit, ranges=_boundary_ranges(), label="ticks-boundaries"))
    stride = 4099 if tier == "quick" else 67   # 2^20 / 2^26 strided samples
    nip = 4 if tier == "quick" else 16
    for sh in range(nip):
        us.append(Unit("ip-%d" % sh, enumeration_unit, cases=_IpCases(stride * nip, sh * stride + (seed % stride)),
                       label="ip-%d" % sh, exhaustive=False, sample_every=100000))
    for sh in range(4):
        us.append(Unit("ip-text-%d" % sh, enumeration_unit, cases=_IpTextCases(sh, 4), label="ip-text-%d" % sh, sample_every=50000))
    n = 1500 if tier == "quick" else 12000
    for sh in range(8 if tier == "quick" else 16):
        us.append(Unit("hyp-%d" % sh, hypothesis_unit, strategy=cases(), examples=n,
                       seed=shard_seed(seed, sh), label="hyp-%d" % sh))
    return us


class _IpTextCases:
    """addresses whose four octets are printable characters of numbers, dotted quads and IPv6 literals ("::12", "1.2.",
    "ab::"): a decoder that guesses at the representation goes wrong exactly here.  24^4 = 331776 addresses, sharded."""

    ALPHABET = b"0123456789abcdefABCDEF.:"

    def __init__(self, k, m):
        self.k, self.m = k, m

    def __iter__(self):
        import itertools as _it

        for n, quad in enumerate(_it.product(self.ALPHABET, repeat=4)):
            if n % self.m == self.k:
                yield dict(k="ip", a=int.from_bytes(bytes(quad), "big"))


class _IpCases:
    """picklable lazy iterable"""

    def __init__(self, stride, offset):
        self.stride, self.offset = stride, offset

    def __iter__(self):
        return _ip_cases(self.stride, self.offset)


REQUIRED_CLASSES = {"k=counter": 0.0001, "k=udec": 0.0001}   # (60 % of the fractions first required: room for seed-to-seed variation)
