"""C06 -- every response value reaches the caller with the type and value that
was sent; re-encoding a decoded structure yields the same content.
DESIGN.md section 3, C06."""
from __future__ import annotations

from hypothesis import strategies as st

import vagent
import vber
import vclock
import vstrategies as vs
import vworld
from puresnmp.exc import NoSuchOID
from vrunner import Result, Unit, hypothesis_unit, shard_seed

ID = "C06"
LEVEL = "exploration"
TECHNIQUE = ("property-based testing (Hypothesis): responses are built by the independent encoder with a generated definite "
             "length form for every TLV header and delivered through the real client; oracle = what the independent decoder "
             "reads from the same bytes; plus the re-encode law decode -> bytes -> same content tree for PDU, ScopedPDU, "
             "USMSecurityParameters and Message")
RULE = ("case = binding list 0..200 of values of all 13 types (Integer32 / unsigned 32 / Counter64 at byte boundaries, strings "
        "0..65000 incl. 126/127/128/255/256, OIDs up to 2^32-1 sub-identifiers, exception markers) x a length form per TLV "
        "{short, minimal long, long padded to 1..4 octets} x request-id / error-index over Integer32 x operation {get, "
        "multiget, getnext, multigetnext, bulkget} x protocol {v1, v2c, v3 plain, v3 with the scoped PDU encrypted by the "
        "harness plug-ins} | law cases on PDU / ScopedPDU / USM parameters / Message; non-trivial = a value at a boundary, a "
        "non-short length form, or >= 3 bindings; distinct = SHA-1 of canonical JSON case")
ASSUMPTIONS = [
    "well-formed = valid BER with definite lengths and canonical value contents (device-style unsigned contents are C17)",
    "authenticated SNMPv3 messages carry generated length forms as well: the reference agent signs exactly the bytes it sends",
    "a single get / getnext of an exception marker raises NoSuchOID (C04) instead of returning the marker",
    "first OID arcs x690 documents as unsupported (2.40 and above) are outside the domain",
]
REQUIRED_CLASSES = {"nonshort_form": 0.18, "marker": 0.03, "kind=law": 0.048, "v3": 0.06, "big_list": 0.006}   # (60 % of the fractions first required: room for seed-to-seed variation)

MARKERS = (vber.T_NOSUCHOBJECT, vber.T_NOSUCHINSTANCE, vber.T_ENDOFMIBVIEW)


class Former:
    """Chooses a definite length form for every TLV from a drawn list."""

    def __init__(self, forms):
        self.forms = list(forms) or [None]
        self.i = 0
        self.nonshort = 0

    def tlv(self, tag, content):
        f = self.forms[self.i % len(self.forms)]
        self.i += 1
        n = len(content)
        if f == 0 and n >= 128:
            f = None
        if f is not None and f > 0 and n >= 256 ** f:
            f = None
        if f not in (None, 0) or (f is None and n >= 128):
            self.nonshort += 1
        return vber.tlv(tag, content, f)

    def integer(self, v, tag=vber.T_INT):
        return self.tlv(tag, vber.int_content(v))

    def pdu(self, tag, rid, es, ei, vbs):
        body = b"".join(self.tlv(vber.T_SEQ, self.tlv(vber.T_OID, vber.oid_content(o)) + self.tlv(t, c)) for o, t, c in vbs)
        return self.tlv(tag, self.integer(rid) + self.integer(es) + self.integer(ei) + self.tlv(vber.T_SEQ, body))

    def community(self, version, community, pdu):
        return self.tlv(vber.T_SEQ, self.integer(version) + self.tlv(vber.T_OCTETS, community) + pdu)

    def scoped(self, ce, cn, pdu):
        return self.tlv(vber.T_SEQ, self.tlv(vber.T_OCTETS, ce) + self.tlv(vber.T_OCTETS, cn) + pdu)

    def usm(self, eng, boots, time, user, digest, salt):
        return self.tlv(vber.T_SEQ, self.tlv(vber.T_OCTETS, eng) + self.integer(boots) + self.integer(time)
                        + self.tlv(vber.T_OCTETS, user) + self.tlv(vber.T_OCTETS, digest) + self.tlv(vber.T_OCTETS, salt))

    def v3(self, msg_id, max_size, flags, usm_bytes, body):
        hdr = self.tlv(vber.T_SEQ, self.integer(msg_id) + self.integer(max_size) + self.tlv(vber.T_OCTETS, bytes([flags]))
                       + self.integer(3))
        return self.tlv(vber.T_SEQ, self.integer(3) + hdr + self.tlv(vber.T_OCTETS, usm_bytes) + body)


def _boundary(tag, content) -> bool:
    if tag in (vber.T_OCTETS, vber.T_OPAQUE):
        return len(content) in (0, 126, 127, 128, 255, 256) or len(content) > 1000
    if tag in (vber.T_INT,) + vber.UNSIGNED_TAGS:
        v = int.from_bytes(content, "big", signed=True)
        a = abs(v)
        return a <= 1 or any(abs(a - (1 << k)) <= 1 for k in (7, 8, 15, 16, 23, 24, 31, 32, 63, 64))
    return tag in MARKERS


def _same(obs, exp):
    return obs == exp and type(obs[1]) is type(exp[1])


def _pred(o):
    """an OID that sorts strictly before o (what a GETNEXT would have asked)"""
    o = tuple(o)
    if len(o) > 2:
        return o[:-1]
    if o[1] > 0:
        return (o[0], o[1] - 1)
    if o[0] > 0:
        return (o[0] - 1, 39)
    return None


def run_law(case) -> Result:
    from x690 import decode as x_decode

    from puresnmp.adt import Message, ScopedPDU
    from puresnmp_plugins.security.usm import USMSecurityParameters

    vbs = [(tuple(o), t, bytes.fromhex(h)) for o, t, h in case["vbs"]]
    f = Former(case["forms"])
    what = case["what"]
    rid, es, ei = case["rid"], 0, case["ei"]
    pdu = f.pdu(case.get("pdu_tag", vber.PDU_RESPONSE), rid, es, ei, vbs)
    cls = ["kind=law", "law=" + what]
    if what == "pdu":
        b = pdu
        obj, _ = x_decode(b)
        outs = [bytes(obj)]
        content = obj.value
        got_fields = (content.request_id, content.error_status, content.error_index,
                      [vworld.observe_vb(vb) for vb in content.varbinds])
        want_fields = (rid, es, ei, [(o,) + vber.typed_value(t, c) for o, t, c in vbs])
        if got_fields != want_fields:
            return Result("decoded PDU content %r differs from what an independent decoder reads: %r (input %s)" % (
                got_fields, want_fields, b.hex()[:300]), True, cls)
        if not any(t in MARKERS for _, t, _ in vbs):
            # rebuild from the decoded content (the library cannot encode exception markers)
            outs.append(bytes(type(obj)(content)))
    elif what == "scoped":
        b = f.scoped(bytes.fromhex(case["ce"]), bytes.fromhex(case["cn"]), pdu)
        outs = [bytes(ScopedPDU.decode(b))]
    elif what == "usm":
        b = f.usm(bytes.fromhex(case["ce"]), case["rid"] & 0x7FFFFFFF, case["ei"] & 0x7FFFFFFF, bytes.fromhex(case["cn"]),
                  bytes.fromhex(case["digest"]), bytes.fromhex(case["salt"]))
        outs = [bytes(USMSecurityParameters.decode(b))]
    else:
        usm = f.usm(bytes.fromhex(case["ce"]), 3, 1000, b"usr", bytes.fromhex(case["digest"]), bytes.fromhex(case["salt"]))
        if case.get("encrypted"):
            body = f.tlv(vber.T_OCTETS, bytes.fromhex(case["cn"]) + b"\x00cipher")
            flags = 3
        else:
            body = f.scoped(bytes.fromhex(case["ce"]), bytes.fromhex(case["cn"]), pdu)
            flags = case.get("flags", 0) & 5
        b = f.v3(case["rid"] & 0x7FFFFFFF, 65507, flags, usm, body)
        outs = [bytes(Message.decode(b))]
    nt = f.nonshort > 0 or len(vbs) >= 3 or any(_boundary(t, c) for _, t, c in vbs)
    if f.nonshort:
        cls.append("nonshort_form")
    want = vber.norm_tree(b)
    for out in outs:
        try:
            got = vber.norm_tree(out)
        except vber.BerError as e:
            return Result("re-encoding the decoded %s gives bytes that are not BER: %s (input %s)" % (what, e, b.hex()[:300]), nt, cls)
        if got != want:
            return Result("re-encoding the decoded %s changes its content: input %s re-encoded %s" % (
                what, b.hex()[:300], out.hex()[:300]), nt, cls)
    return Result(None, nt, cls)


def run_case(case) -> Result:
    if case.get("kind") == "law":
        try:
            return run_law(case)
        except (vber.BerError, AssertionError):
            raise
        except Exception as e:  # noqa -- decoding / re-encoding a well-formed structure must not raise
            return Result("law %s: decoding or re-encoding a well-formed %s raised %s: %s" % (
                case["what"], case["what"], type(e).__name__, e), True, ["kind=law", "law=" + case["what"]])
    proto = case["proto"]
    op = case["op"]
    vbs = [(tuple(o), t, bytes.fromhex(h)) for o, t, h in case["vbs"]]
    version = {"1": 0, "2c": 1, "3": 3}[proto["v"]]
    f = Former(case["forms"])
    classes = {"op=" + op, vworld.proto_label(proto), "kind=wire"}
    if version == 3:
        classes.add("v3")
    if any(t in MARKERS for _, t, _ in vbs):
        classes.add("marker")
    if len(vbs) >= 50:
        classes.add("big_list")
    st8 = {}

    def hook(agent, req):
        pdu = req["pdu"]
        body = f.pdu(vber.PDU_RESPONSE, pdu["rid"], 0, case.get("ei", 0), vbs)
        st8["rid"] = pdu["rid"]
        if version != 3:
            return f.community(version, agent.community, body)
        user = agent.users[req["user"]]
        scoped = f.scoped(req["ctx_engine"], req["ctx_name"], body)
        flags = req["flags"] & 3
        if flags == 0:
            usm = f.usm(agent.engine_id, agent.boots, agent.engine_time(), user.name, b"", b"")
            return f.v3(req["msg_id"], 65507, 0, usm, scoped)
        # authenticated: EVERY TLV of the message in a generated length form; the digest is computed by the agent over
        # exactly the bytes it sends (12 zero octets in place of the digest), as RFC 3414 6.3.1 prescribes
        salt = b""
        wire_body = scoped
        if flags & 2:
            salt = b"C06salt!"
            enc, _dec = vagent.PRIV_IMPL[user.priv]
            wire_body = None
            cipher = enc(agent.priv_key(user), salt, scoped)
        start = f.i

        def build(digest):
            f.i = start
            body = f.tlv(vber.T_OCTETS, cipher) if flags & 2 else scoped_again()
            usm = f.usm(agent.engine_id, agent.boots, agent.engine_time(), user.name, digest, salt)
            return f.v3(req["msg_id"], 65507, flags, usm, body)

        def scoped_again():
            return f.scoped(req["ctx_engine"], req["ctx_name"], f.pdu(vber.PDU_RESPONSE, pdu["rid"], 0, case.get("ei", 0), vbs))

        zeroed = build(b"\x00" * 12)
        return build(vagent.hmac96(user.algo, agent.auth_key(user), zeroed))

    agent, client = vworld.make_world(proto, {}, request_cap=4)
    agent.respond_hook = hook
    O = vworld.OID
    if op in ("getnext", "multigetnext", "bulkget"):
        req_oids = [_pred(o) for o, _, _ in vbs]
    else:
        req_oids = [o for o, _, _ in vbs]

    async def go():
        if op == "get":
            return await client.get(O(req_oids[0]))
        if op == "multiget":
            return await client.multiget([O(o) for o in req_oids])
        if op == "getnext":
            return await client.getnext(O(req_oids[0]))
        if op == "multigetnext":
            return await client.multigetnext([O(o) for o in req_oids])
        if op == "bulkget":
            n = case["nscalar"]
            return await client.bulkget([O(o) for o in req_oids[:n]], [O(req_oids[n])] if len(req_oids) > n else [],
                                        max_list_size=max(0, len(vbs) - n))
        raise ValueError(op)

    exc = res = None
    with vclock.fixed(case.get("clock", 1_700_000_000)):
        try:
            res = vworld.run(go())
        except vagent.AgentInternalError as e:
            return Result("client sent something the reference agent cannot handle: %s" % e, False, sorted(classes))
        except Exception as e:  # noqa
            exc = e
    if f.nonshort:
        classes.add("nonshort_form")
    nontrivial = f.nonshort > 0 or len(vbs) >= 3 or any(_boundary(t, c) for _, t, c in vbs)
    cls = sorted(classes)
    if exc is not None and vworld.f10b_excusable(agent, exc):
        return Result("AuthenticationError on an authentic response with a 127-octet TLV", nontrivial, cls,
                      known="reencoded_len_127")
    head = "%s %s" % (vworld.proto_label(proto), op)
    delivered = agent.log[-1].get("response", b"") if agent.log else b""

    def bad(msg):
        return Result("%s: %s (response %s%s)" % (head, msg, delivered.hex()[:500], "..." if len(delivered) > 250 else ""),
                      nontrivial, cls)

    def edesc():
        return "%s: %s" % (type(exc).__name__, exc)

    want = [(o,) + vber.typed_value(t, c) for o, t, c in vbs]
    if op in ("get", "getnext"):
        o, t, c = vbs[0]
        marker = t in ((vber.T_NOSUCHOBJECT, vber.T_NOSUCHINSTANCE) if op == "get" else (vber.T_ENDOFMIBVIEW,))
        if marker:
            if not isinstance(exc, NoSuchOID):
                return bad("exception marker must raise NoSuchOID, got %s" % (edesc() if exc else repr(res)))
            return Result(None, nontrivial, cls)
        if exc is not None:
            return bad("raised %s" % edesc())
        got = vworld.observe(res) if op == "get" else vworld.observe_vb(res)[1:]
        if not _same(got, want[0][1:]):
            return bad("returned %r, an independent decoder reads %r" % (got, want[0][1:]))
        if op == "getnext" and vworld.observe_vb(res)[0] != o:
            return bad("returned OID %r, sent %s" % (vworld.observe_vb(res)[0], vagent.S(o)))
        return Result(None, nontrivial, cls)
    if exc is not None:
        return bad("raised %s" % edesc())
    if op == "multiget":
        got = [vworld.observe(v) for v in res]
        if len(got) != len(want) or not all(_same(g, w[1:]) for g, w in zip(got, want)):
            return bad("returned %r, an independent decoder reads %r" % (got[:8], [w[1:] for w in want[:8]]))
    elif op == "multigetnext":
        w2 = [w for w in want if w[1] != "EndOfMibView"]
        got = [vworld.observe_vb(vb) for vb in res]
        if len(got) != len(w2) or not all(g[0] == w[0] and _same(g[1:], w[1:]) for g, w in zip(got, w2)):
            return bad("returned %r, an independent decoder reads %r" % (got[:8], w2[:8]))
    elif op == "bulkget":
        n = case["nscalar"]
        gs = {vworld.oid_tuple(k): vworld.observe(v) for k, v in res.scalars.items()}
        ws = {w[0]: w[1:] for w in want[:n]}
        if set(gs) != set(ws) or not all(_same(gs[k], ws[k]) for k in gs):
            return bad("scalars %r, an independent decoder reads %r" % (gs, ws))
        gl = [(vworld.oid_tuple(k),) + vworld.observe(v) for k, v in res.listing.items()]
        wl = [w for w in want[n:] if w[1] != "EndOfMibView"]
        if len(gl) != len(wl) or not all(g[0] == w[0] and _same(g[1:], w[1:]) for g, w in zip(gl, wl)):
            return bad("listing %r, an independent decoder reads %r" % (gl[:8], wl[:8]))
    return Result(None, nontrivial, cls)


# --------------------------------------------------------------------------

FORMS = st.lists(st.sampled_from([None, None, 0, 0, 1, 2, 3, 4]), min_size=1, max_size=12)
ALL_TAGS = [vber.T_INT, vber.T_OCTETS, vber.T_NULL, vber.T_OID, vber.T_IPADDR, vber.T_COUNTER, vber.T_GAUGE,
            vber.T_TICKS, vber.T_OPAQUE, vber.T_COUNTER64]
C06_PROTOS = [vworld.V1_PROTO, vworld.V2C_PROTO, vworld.V2C_PROTO, vworld.V2C_PROTO, vworld.V3_PROTOS[0],
              vworld.V3_PROTOS[0], vworld.V3_PROTOS[3], vworld.V3_PROTOS[4], vworld.V3_PROTOS[1]]


@st.composite
def one_value(draw, v1=False, markers=()):
    tags = [t for t in ALL_TAGS if not (v1 and t == vber.T_COUNTER64)]
    kind = draw(st.integers(0, 11))
    if markers and kind == 0:
        return [draw(st.sampled_from(list(markers))), ""]
    size = draw(st.sampled_from([8, 24, 24, 130, 260]))
    tag, h = draw(vs.value(tags=tags, max_octets=size))
    if tag in (vber.T_OCTETS, vber.T_OPAQUE) and kind == 1:
        h = (b"\xa5" * draw(st.sampled_from([0, 126, 127, 128, 255, 256, 1000, 1000, 16383, 16384, 65535, 65536, 100000]))).hex()
    if tag == vber.T_OID and kind == 2:
        # long names: up to the 128 sub-identifiers SMIv2 allows, each up to 2^32-1
        n = draw(st.sampled_from([30, 64, 126]))
        arcs = (1, 3) + tuple(draw(st.lists(vs.SUBID, min_size=n, max_size=n)))
        h = vber.oid_content(arcs).hex()
    return [tag, h]


@st.composite
def unique_oids(draw, n):
    base = draw(st.sampled_from(vs.PREFIXES)) + tuple(draw(st.lists(vs.SUBID, max_size=3)))
    base = base if len(base) > 2 else base + (1,)
    step = draw(st.sampled_from([1, 1, 2, 127, 2 ** 20]))
    start = draw(st.sampled_from([0, 1, 126, 16383]))
    return [list(base + (start + i * step,)) + ([0] if draw(st.booleans()) else []) for i in range(n)]


@st.composite
def cases(draw):
    if draw(st.integers(0, 7)) == 0:
        what = draw(st.sampled_from(["pdu", "scoped", "usm", "message", "message"]))
        n = draw(st.sampled_from([0, 1, 2, 3, 5, 12]))
        oids = draw(unique_oids(n))
        return dict(kind="law", what=what, forms=draw(FORMS),
                    vbs=[[o] + draw(one_value(markers=MARKERS)) for o in oids],
                    rid=draw(vs.int32()), ei=draw(st.one_of(st.integers(0, 3), vs.int32())),
                    pdu_tag=draw(st.sampled_from([vber.PDU_RESPONSE, vber.PDU_GET, vber.PDU_GETNEXT, vber.PDU_SET,
                                                  vber.PDU_REPORT, vber.PDU_TRAP, vber.PDU_INFORM])),
                    ce=draw(st.binary(max_size=140)).hex(), cn=draw(st.binary(max_size=140)).hex(),
                    digest=draw(st.sampled_from([b"", b"\x00" * 12, b"\x01" * 12])).hex(),
                    salt=draw(st.binary(max_size=8)).hex(), encrypted=draw(st.booleans()), flags=draw(st.integers(0, 7)))
    proto = draw(st.sampled_from(C06_PROTOS))
    v1 = proto["v"] == "1"
    ops = ["get", "multiget", "multiget", "getnext", "multigetnext", "multigetnext"] + ([] if v1 else ["bulkget", "bulkget"])
    op = draw(st.sampled_from(ops))
    case = dict(kind="wire", proto=proto, op=op, forms=draw(FORMS),
                clock=draw(st.one_of(st.sampled_from([0, 1, 127, 128, 255, 256, 65535, 65536, 2 ** 31 - 1]),
                                     st.integers(0, 2 ** 31 - 1))),
                ei=draw(st.sampled_from([0, 0, 0, 1, 2, 127, 128, 2 ** 31 - 1, -1])))
    if op in ("get", "getnext"):
        n = 1
    elif op == "bulkget":
        n = draw(st.sampled_from([1, 2, 3, 5, 10, 60, 200]))
        case["nscalar"] = draw(st.integers(0, min(n, 3)))
    else:
        n = draw(st.sampled_from([1, 2, 3, 3, 5, 10, 10, 60, 200]))
    oids = draw(unique_oids(n))
    if v1:
        markers = ()
    elif op in ("get", "multiget"):
        markers = (vber.T_NOSUCHOBJECT, vber.T_NOSUCHINSTANCE)
    else:
        markers = (vber.T_ENDOFMIBVIEW,)
    vbs = [[o] + draw(one_value(v1=v1, markers=markers)) for o in oids]
    if n <= 3 and draw(st.integers(0, 15)) == 0:
        # one really large string (a UDP datagram carries up to 65507 octets)
        vbs[0] = [vbs[0][0], vber.T_OCTETS, (b"\x5a" * draw(st.sampled_from([4000, 20000, 65000]))).hex()]
    case["vbs"] = vbs
    return case


class _DP:
    """minimal data provider over fuzzer bytes (independent of atheris so that replays need no fuzzer)"""

    def __init__(self, data):
        self.d = data
        self.i = 0

    def u8(self):
        if self.i >= len(self.d):
            return 0
        v = self.d[self.i]
        self.i += 1
        return v

    def take(self, n):
        out = self.d[self.i:self.i + n]
        self.i += n
        return out


def fuzz_case(data: bytes):
    """structure-aware decoding of fuzzer bytes into a wire case: protocol, operation, length forms and a binding
    list whose values are canonical by construction"""
    dp = _DP(data)
    proto = C06_PROTOS[dp.u8() % len(C06_PROTOS)]
    v1 = proto["v"] == "1"
    ops = ["multiget", "multigetnext", "get", "getnext"] + ([] if v1 else ["bulkget"])
    op = ops[dp.u8() % len(ops)]
    forms = [[None, 0, 1, 2, 3, 4][dp.u8() % 6] for _ in range(1 + dp.u8() % 8)]
    n = 1 if op in ("get", "getnext") else 1 + dp.u8() % 6
    vbs = []
    for i in range(n):
        tag = ALL_TAGS[dp.u8() % len(ALL_TAGS)]
        if v1 and tag == vber.T_COUNTER64:
            tag = vber.T_COUNTER
        k = dp.u8()
        if tag == vber.T_INT:
            c = vber.int_content(int.from_bytes(dp.take(1 + k % 4) or b"\0", "big", signed=True))
        elif tag in (vber.T_COUNTER, vber.T_GAUGE, vber.T_TICKS):
            c = vber.int_content(int.from_bytes(dp.take(1 + k % 4) or b"\0", "big"))
        elif tag == vber.T_COUNTER64:
            c = vber.int_content(int.from_bytes(dp.take(1 + k % 8) or b"\0", "big"))
        elif tag in (vber.T_OCTETS, vber.T_OPAQUE):
            c = dp.take(k if k < 200 else (k - 199) * 60)
        elif tag == vber.T_OID:
            arcs = [int.from_bytes(dp.take(1 + (k >> 6)), "big") for _ in range(k % 8)]
            c = vber.oid_content((1, 3) + tuple(arcs))
        elif tag == vber.T_IPADDR:
            c = (dp.take(4) + b"\0\0\0\0")[:4]
        else:
            c = b""
        if not v1 and k % 11 == 0:
            marker = {"get": vber.T_NOSUCHOBJECT, "multiget": vber.T_NOSUCHINSTANCE}.get(op, vber.T_ENDOFMIBVIEW)
            tag, c = marker, b""
        vbs.append([[1, 3, 6, 1, 4, 1, 7, i + 1, dp.u8()], tag, c.hex()])
    case = dict(kind="wire", proto=proto, op=op, forms=forms, clock=int.from_bytes(dp.take(4), "big") % (2 ** 31), ei=dp.u8() % 3,
                vbs=vbs)
    if op == "bulkget":
        case["nscalar"] = dp.u8() % min(n, 3)
    return case


def fuzz_corpus():
    return [bytes([p, o, 3, 0, 1, 4, 2, 5, 1, 33, 7, 9, 200, 1, 2, 3, 4, 5, 6, 7, 8]) + bytes(range(40)) for p in range(4) for o in range(5)]


def units(tier, seed):
    n = 260 if tier == "quick" else 10000
    if tier == "thorough":
        import vfuzz

        fz = [Unit("atheris-%d" % k, vfuzz.fuzz_unit, mode="c06", runs=60000, seed=shard_seed(seed, 70 + k),
                   label="atheris-%d%s" % (k, "-empty-corpus" if not corpus else ""), corpus=corpus, max_len=1200, wall_s=900)
              for k, corpus in enumerate((fuzz_corpus(), []))]
    else:
        fz = []
    return fz + [Unit("hyp-%d" % sh, hypothesis_unit, strategy=cases(), examples=n, seed=shard_seed(seed, sh),
                 label="hyp-%d" % sh) for sh in range(16)]
