"""C03 -- Walks always terminate and never re-request, whatever the agent
answers.  DESIGN.md section 3, C03."""
from __future__ import annotations

import itertools

from hypothesis import strategies as st

import vadversary
import vagent
import vworld
from puresnmp.exc import ErrorResponse, FaultySNMPImplementation, SnmpError
from vrunner import Result, Unit, enumeration_unit, hypothesis_unit, shard_seed

ID = "C03"
LEVEL = "fault_enumeration"
TECHNIQUE = ("fault enumeration + property-based testing: the agent is an arbitrary generated function "
             "(requested OID, repetition index) -> OID|endOfMibView over a finite universe; oracle = request "
             "cap (termination), no OID requested twice, request bound, outcome class, and an ideal-walker "
             "simulation for repetition-independent functions; exhaustive over all functions on 4-OID universes in thorough")
RULE = ("case = universe (1..3 roots, 2..5 OIDs inside each, OIDs before/between/after) x total function f "
        "(honest successor with 0..3 drawn defects, or fully random; repetition-dependent in half of the bulk "
        "cases) x operation {walk, multiwalk, bulkwalk, table, bulktable; one case in six through the pythonic wrapper} x errors {strict, warn} x bulk 0..8 x value bound to each returned OID {INTEGER, noSuchObject, noSuchInstance, OCTET STRING, NULL} x requests answered with an empty binding list x requests answered with an error-status (2, 5, 13) and an error-index inside / outside the request; "
        "non-trivial = f has a non-advancing step reachable from a root; distinct = SHA-1 of canonical JSON case")
ASSUMPTIONS = [
    "bound (3) #requests <= #distinct OIDs revealed + #roots + 1 is deliberately loose",
    "for repetition-dependent f only termination, no-re-request, the request bound and the outcome class are asserted (the trajectory then depends on chunking the client is free to choose)",
    "a non-advancing binding later in the same GETBULK response, after the column has left its root, may or may not be reported",
    "a root is first asked for as itself, so a non-advancing f(root, 0) must be reported (strict) for every root that WAS requested, whatever grouping the implementation uses (a root may legitimately never be requested, e.g. when the agent has already answered endOfMibView behind a smaller OID)",
    "an implementation may request OIDs the agent never returned as long as they lie below a requested root (probing for the next column of a table); the function agent answers them with their honest successor",
    "a response with a non-zero error-status must end the operation: normally (status 2 on a continuation request, documented) or with the ErrorResponse subclass; it must never be re-requested",
    "a response without any binding (max-repetitions 0, or scripted) must still end the operation: normally, or with SnmpError for the GETNEXT-based operations (binding-count mismatch)",
]
_REQUIRED_BASE = {"exception_marker_values": 0.09, "nonadvancing_reachable": 0.15, "bulk=0": 0.012, "empty_response_scripted": 0.09, "error_response_scripted": 0.09, "op=bulkwalk": 0.06, "op=walk": 0.06, "errors=warn": 0.06}   # (60 % of the fractions first required: room for seed-to-seed variation)
# generator health of the newer case families (quick tier: the thorough tier dilutes them with enumerated units)
_REQUIRED_QUICK = {"via_wrapper": 0.036}   # (60 % of the fractions first required: room for seed-to-seed variation)


def REQUIRED_CLASSES(tier):
    return dict(_REQUIRED_BASE, **(_REQUIRED_QUICK if tier == "quick" else {}))

P = (1, 3, 6, 1, 2, 1, 7)


def universe(nroots, inside, variant=0):
    """-> (roots, U sorted).  Inside OIDs carry three extra arcs so that
    table()/bulktable() can split them into column and row."""
    roots = [P + (10 * (i + 1),) for i in range(nroots)]
    u = []
    cells = [(1, 1, 1), (1, 1, 2), (1, 2, 1), (1, 2, 2), (1, 3, 1)]
    for i, r in enumerate(roots):
        for c in cells[:inside[i]]:
            u.append(r + c)
    if variant in (0, 2):
        u.append(P + (5, 0))          # before every root
    for i in range(nroots - 1):
        u.append(P + (10 * (i + 1) + 5, 0))   # between roots
    u.append(P + (90, 0))              # after every root
    if variant == 0:
        u.append(P + (91, 0))
    return roots, sorted(u)


def honest_table(roots, U, reps):
    req = roots + U
    tab = []
    for q in req:
        nxt = [i for i, u in enumerate(U) if u > q]
        t = nxt[0] if nxt else -1
        tab.append([t] * reps)
    return tab


def _in(o, r):
    return len(o) >= len(r) and o[:len(r)] == r


def ideal_walk(agent, root, limit):
    """Repetition-independent ideal walker.  -> (kind, delivered) where kind
    is 'leave' | 'nonadvancing' | 'limit'."""
    x = root
    out = []
    for _ in range(limit):
        y = agent.f(x, 0)
        if y is None:
            return "leave", out
        if not x < y:
            return "nonadvancing", out
        if not _in(y, root):
            return "leave", out
        out.append(y)
        x = y
    return "limit", out


def continued_nonadvancing(agent, root, steps):
    """After the ideal walker has left the root: does the trajectory meet a
    non-advancing step within ``steps`` further steps (same GETBULK response)?"""
    x = root
    left = False
    n = 0
    for _ in range(steps + 64):
        y = agent.f(x, 0)
        if y is None:
            return False
        if not x < y:
            return True
        if not left and not _in(y, root):
            left = True
        if left:
            n += 1
            if n > steps:
                return False
        x = y
    return False


def reachable_nonadvancing(agent, roots, reps):
    seen = set()
    todo = [(r, 0) for r in roots]
    while todo:
        x, d = todo.pop()
        if (x, d) in seen:
            continue
        seen.add((x, d))
        for rep in range(reps):
            y = agent.f(x, rep)
            if y is None:
                continue
            if not x < y:
                return True
            if d < 40:
                todo.append((y, d + 1))
    return False


def build(case):
    roots, U = universe(case["nroots"], case["inside"], case.get("variant", 0))
    cap = 3 * len(U) + 10
    agent = vadversary.FunctionAgent(roots, U, case["f"], cap,
                                     stop_all_eom=case.get("stop_all_eom", True),
                                     empty_at=case.get("empty_at", ()),
                                     error_at={int(k): tuple(v) for k, v in case.get("error_at", {}).items()},
                                     values=case.get("values"))
    client = vworld.Client("192.0.2.1", vworld.V2C("public"), sender=agent)
    return roots, U, agent, client


def run_case(case) -> Result:
    roots, U, agent, client = build(case)
    op = case["op"]
    errors = case.get("errors", "strict")
    bulk = case.get("bulk", 1)
    reps = len(case["f"][0])
    if len(case["f"]) != len(roots) + len(U):
        raise ValueError("function table does not match the universe")
    delivered = []

    async def go():
        R = [vworld.OID(r) for r in roots]
        if case.get("via_wrapper"):
            # the same operations through the pythonic wrapper (it offers the lenient mode for walk only)
            py = vworld.PyWrapper(client)
            S = vagent.S
            T = lambda o: tuple(int(x) for x in o.split("."))  # noqa
            if op == "walk":
                async for vb in py.walk(S(roots[0]), errors=errors):
                    delivered.append(T(vb.oid))
            elif op == "multiwalk":
                async for vb in py.multiwalk([S(r) for r in roots]):
                    delivered.append(T(vb.oid))
            elif op == "bulkwalk":
                async for vb in py.bulkwalk([S(r) for r in roots], bulk_size=bulk):
                    delivered.append(T(vb.oid))
            elif op == "table":
                for row in await py.table(S(roots[0])):
                    delivered.append(row["0"])
            else:
                for row in await py.bulktable(S(roots[0]), bulk_size=bulk):
                    delivered.append(row["0"])
        elif op == "walk":
            async for vb in client.walk(R[0], errors=errors):
                delivered.append(vworld.oid_tuple(vb.oid))
        elif op == "multiwalk":
            async for vb in client.multiwalk(R, errors=errors):
                delivered.append(vworld.oid_tuple(vb.oid))
        elif op == "bulkwalk":
            async for vb in client.bulkwalk(R, bulk_size=bulk):
                delivered.append(vworld.oid_tuple(vb.oid))
        elif op == "table":
            for row in await client.table(R[0]):
                delivered.append(row["0"])
        elif op == "bulktable":
            for row in await client.bulktable(R[0], bulk_size=bulk):
                delivered.append(row["0"])
        else:
            raise ValueError(op)

    used_roots = roots if op in ("multiwalk", "bulkwalk") else roots[:1]
    probe = vadversary.FunctionAgent(roots, U, case["f"], 10 ** 9)
    nonadv = reachable_nonadvancing(probe, used_roots, reps if op in ("bulkwalk", "bulktable") else 1)
    classes = ["op=" + op, "errors=" + errors, "roots=%d" % len(used_roots),
               "rep_dependent" if reps > 1 else "rep_independent"]
    if nonadv:
        classes.append("nonadvancing_reachable")
    if bulk == 0:
        classes.append("bulk=0")
    if case.get("via_wrapper"):
        classes.append("via_wrapper")
    if case.get("values"):
        classes.append("exception_marker_values" if any(v in (1, 2) for v in case["values"]) else "other_value_types")
    if case.get("empty_at"):
        classes.append("empty_response_scripted")
    if case.get("error_at"):
        classes.append("error_response_scripted")
    outcome = "ok"
    exc_text = ""
    try:
        vworld.run(go())
    except vagent.CapExceeded:
        return Result("%s(errors=%s, bulk=%d) did not terminate: request cap %d reached; last requests %s" % (
            op, errors, bulk, agent.cap, [[vagent.S(o) for o in r[1]] for r in agent.requests[-3:]]),
            nonadv, classes)
    except FaultySNMPImplementation as exc:
        outcome = "faulty"
        exc_text = str(exc)
    except vagent.AgentInternalError as exc:
        return Result("client sent something the agent cannot parse: %s" % exc, nonadv, classes)
    except Exception as exc:  # noqa
        if agent.errors_sent and isinstance(exc, ErrorResponse):
            # the agent answered with a non-zero error-status: surfacing it as the documented exception is fine (C08)
            outcome = "error_response"
        elif agent.empty_sent and isinstance(exc, SnmpError) and op in ("walk", "multiwalk", "table"):
            # a GETNEXT response without bindings is a count mismatch (C04): refusing it is fine
            outcome = "refused_empty"
        else:
            return Result("%s ended with %s: %s (only a normal end or FaultySNMPImplementation is allowed)" % (
                op, type(exc).__name__, exc), nonadv, classes)
    classes.append("outcome=" + outcome)
    # (2) never ask again for an OID already continued from
    seen = {}
    for i, (tag, oids) in enumerate(agent.requests):
        for o in oids:
            if o in seen:
                return Result("%s asked for %s again (requests %d and %d)" % (op, vagent.S(o), seen[o], i),
                              nonadv, classes)
            seen[o] = i
    # (3) request bound
    bound = len(agent.revealed) + len(used_roots) + 1
    if len(agent.requests) > bound:
        return Result("%s sent %d requests, the agent revealed only %d distinct OIDs (+%d roots +1)" % (
            op, len(agent.requests), len(agent.revealed), len(used_roots)), nonadv, classes)
    foreign = [o for o in agent.unknown_requested if not any(_in(o, r) for r in used_roots)]
    if foreign:
        return Result("%s requested %s which the agent never returned and which lies below no root" % (
            op, vagent.S(foreign[0])), nonadv, classes)
    if outcome == "faulty" and errors == "warn" and op in ("walk", "multiwalk"):
        return Result("errors='warn' but %s raised FaultySNMPImplementation: %s" % (op, exc_text), nonadv, classes)
    if outcome == "faulty" and not nonadv:
        return Result("%s raised FaultySNMPImplementation although every reachable answer advances: %s" % (
            op, exc_text), nonadv, classes)
    # (6) the very first answer: whatever the grouping of later requests, the first request asks for the roots themselves
    # and the first repetition answers f(root, 0) for each of them; a non-advancing one must be reported
    if not agent.empty_sent and not agent.errors_sent and not (bulk == 0 and op in ("bulkwalk", "bulktable")):
        asked = {o for _, oids in agent.requests for o in oids}
        stalled = [r for r in used_roots if r in asked and probe.f(r, 0) is not None and not r < probe.f(r, 0)]
        if op in ("bulkwalk", "bulktable"):
            # a GETBULK row is positional: an implementation may stop reading it at the first endOfMibView (for a conformant
            # agent and ascending roots everything behind it is endOfMibView too), so only stalls before that count
            ordered = sorted(used_roots)
            first_eom = next((i for i, r in enumerate(ordered) if probe.f(r, 0) is None), len(ordered))
            stalled = [r for r in stalled if ordered.index(r) < first_eom]
        if stalled:
            classes.append("first_answer_stalls")
            lenient = errors == "warn" and op in ("walk", "multiwalk")
            if not lenient and outcome != "faulty":
                return Result("%s: the first answer for root %s is %s, which does not advance, but the operation ended normally "
                              "(delivered %s)" % (op, vagent.S(stalled[0]), vagent.S(probe.f(stalled[0], 0)),
                                                  [vagent.S(o) if isinstance(o, tuple) else o for o in delivered]), nonadv, classes)
            if lenient and outcome != "ok":
                return Result("errors='warn' but %s raised on a non-advancing first answer" % op, nonadv, classes)
    # (5) ideal walker, single root, repetition-independent f
    if reps == 1 and len(used_roots) == 1 and not agent.empty_sent and not agent.errors_sent and not (bulk == 0 and op in ("bulkwalk", "bulktable")):
        root = used_roots[0]
        kind, expect = ideal_walk(probe, root, len(U) + 2)
        is_bulk = op in ("bulkwalk", "bulktable")
        if op in ("table", "bulktable"):
            # rows keyed by index; compare as the set of row ids
            def rowid(o):
                tail = o[len(root):]
                return ".".join(str(n) for n in (tail[1:] if op == "table" else tail[2:]))
            expect_d = []
            for o in expect:
                r = rowid(o)
                if r not in expect_d:
                    expect_d.append(r)
            got_d = list(delivered)
            same = sorted(got_d) == sorted(expect_d)
        else:
            expect_d = expect
            got_d = delivered
            same = got_d == expect_d
        if kind == "nonadvancing":
            if errors == "warn" and op == "walk":
                if outcome != "ok" or not same:
                    return Result("lenient walk must end normally with exactly the in-root prefix %s, got outcome=%s delivered=%s" % (
                        [vagent.S(o) for o in expect], outcome, [vagent.S(o) for o in delivered]), nonadv, classes)
            elif outcome != "faulty":
                return Result("%s: the agent's answer does not advance (step %d of the walk) but the operation ended normally" % (
                    op, len(expect) + 1), nonadv, classes)
        elif kind == "leave":
            overrun_faulty = is_bulk and continued_nonadvancing(probe, root, bulk)
            if outcome == "faulty" and not overrun_faulty:
                return Result("%s raised FaultySNMPImplementation although the walk leaves the root before any non-advancing answer" % op,
                              nonadv, classes)
            if outcome == "ok" and not same:
                return Result("%s delivered %s, the agent's trajectory inside the root is %s" % (
                    op, got_d, expect_d), nonadv, classes)
    return Result(None, nonadv, classes, observations={"max_requests": len(agent.requests)})


def _wrapper_modes(case):
    # the wrapper passes `errors` on for walk only: its other operations are strict
    if case.get("via_wrapper") and case["op"] != "walk":
        case["errors"] = "strict"
    return case


@st.composite
def cases(draw):
    nroots = draw(st.sampled_from([1, 1, 2, 3]))
    inside = [draw(st.integers(2, 5)) for _ in range(nroots)]
    variant = draw(st.sampled_from([0, 0, 1, 2]))
    roots, U = universe(nroots, inside, variant)
    ops = ["walk", "bulkwalk", "table", "bulktable"] if nroots == 1 else ["multiwalk", "bulkwalk", "multiwalk", "bulkwalk"]
    op = draw(st.sampled_from(ops))
    via_wrapper = draw(st.integers(0, 5)) == 0
    if via_wrapper and nroots == 1 and draw(st.booleans()):
        op = "walk"          # the one wrapper operation that takes the lenient mode
    bulk = draw(st.sampled_from([0, 1, 1, 2, 2, 3, 3, 4, 5, 6, 7, 8])) if op in ("bulkwalk", "bulktable") else 1
    reps = draw(st.sampled_from([1, 1, bulk])) if bulk > 1 else 1
    target = st.integers(-1, len(U) - 1)
    nq = len(roots) + len(U)
    style = draw(st.sampled_from(["defects", "defects", "random", "identity", "cycle"] +
                                 (["eom_and_stall"] * 2 if nroots >= 2 and variant in (0, 2) else []) +
                                 (["stall_and_eom"] * 2 if nroots >= 2 and variant in (0, 2) else [])))
    if style == "random":
        tab = [[draw(target) for _ in range(reps)] for _ in range(nq)]
    else:
        tab = honest_table(roots, U, reps)
        if style == "defects":
            for _ in range(draw(st.integers(0, 3))):
                q = draw(st.integers(0, nq - 1))
                rep = draw(st.integers(0, reps - 1))
                tab[q][rep] = draw(target)
        elif style == "eom_and_stall":
            # in ONE response: an earlier column answers endOfMibView while a later column does not advance
            later = draw(st.integers(1, nroots - 1))
            for rep in range(reps):
                tab[0][rep] = -1
                # an OID inside the FIRST root: larger than the first requested root, smaller than the later one
                tab[later][rep] = 1 if rep % 2 == 0 or reps == 1 else 0
        elif style == "stall_and_eom":
            # the mirror image: in ONE response the FIRST column does not advance (it answers an OID in front of its root)
            # while a later column answers endOfMibView -- what is left of that row is incomplete
            later = draw(st.integers(1, nroots - 1))
            for rep in range(reps):
                tab[0][rep] = 0
                tab[later][rep] = -1
        elif style == "identity":
            q = draw(st.integers(len(roots), nq - 1))
            for rep in range(reps):
                tab[q][rep] = q - len(roots)
        elif style == "cycle":
            k = draw(st.integers(2, 3))
            start = draw(st.integers(len(roots), max(len(roots), nq - k)))
            idx = [min(nq - 1, start + j) - len(roots) for j in range(k)]
            for j in range(k):
                for rep in range(reps):
                    tab[len(roots) + idx[j]][rep] = idx[(j + 1) % k]
    # what the returned OIDs are bound to: mostly INTEGER; sometimes an exception marker or another type at some OIDs
    values = draw(st.sampled_from([None, None, None, "some", "some", "all"]))
    if values == "some":
        values = [draw(st.sampled_from([0, 0, 0, 1, 2, 3, 4])) for _ in U]
    elif values == "all":
        values = [draw(st.sampled_from([1, 2]))] * len(U)
    return _wrapper_modes(dict(nroots=nroots, inside=inside, variant=variant, op=op, values=values, via_wrapper=via_wrapper,
                errors=draw(st.sampled_from(["strict", "strict", "warn"] if not (via_wrapper and op == "walk") else ["strict", "warn", "warn"])),
                bulk=bulk, f=tab, stop_all_eom=draw(st.booleans()),
                empty_at=draw(st.sampled_from([[], [], [], [], [], [0], [1], [2], [1, 2], [3]])),
                error_at=draw(st.sampled_from([{}, {}, {}, {}, {}, {"1": [2, 0]}, {"1": [2, 7]}, {"2": [2, 1]}, {"0": [2, 1]}, {"1": [5, 1]},
                                               {"2": [2, 0]}, {"1": [2, 2]}, {"3": [13, 0]}]))))


def exhaustive(shard, nshards):
    """All 5^5 functions on each of two 4-OID universes x operations x modes
    x bulk sizes 1..3."""
    n = 0
    for variant, inside in ((2, [2]), (1, [3])):
        roots, U = universe(1, inside, variant)
        assert len(U) == 4, U
        for f in itertools.product(range(-1, 4), repeat=5):
            tab = [[t] for t in f]
            for op, errors, bulk in (("walk", "strict", 1), ("walk", "warn", 1),
                                     ("table", "strict", 1),
                                     ("bulkwalk", "strict", 1), ("bulkwalk", "strict", 2),
                                     ("bulkwalk", "strict", 3), ("bulktable", "strict", 2)):
                n += 1
                if n % nshards != shard:
                    continue
                yield dict(nroots=1, inside=inside, variant=variant, op=op, errors=errors,
                           bulk=bulk, f=tab, stop_all_eom=True)


def units(tier, seed):
    out = []
    if tier == "quick":
        for sh in range(16):
            out.append(Unit("hyp-%d" % sh, hypothesis_unit, strategy=cases(),
                            examples=250, seed=shard_seed(seed, sh), label="hyp-%d" % sh))
    else:
        for sh in range(16):
            out.append(Unit("hyp-%d" % sh, hypothesis_unit, strategy=cases(),
                            examples=5000, seed=shard_seed(seed, sh), label="hyp-%d" % sh))
        for sh in range(16):
            out.append(Unit("all-functions-%d" % sh, enumeration_unit,
                            cases=exhaustive(sh, 16), label="all-functions-%d" % sh,
                            sample_every=500))
    return out


def EXHAUSTIVE(tier):
    if tier == "thorough":
        return ("all 3125 functions on each of two 4-OID universes (2 inside + before + after; 3 inside + "
                "after) x {walk strict/warn, table, bulkwalk bulk 1..3, bulktable bulk 2}")
    return None
