"""C05 -- every emitted datagram is the intended request under an independent
decoder.  DESIGN.md section 3, C05."""
from __future__ import annotations

from datetime import timedelta

from hypothesis import strategies as st

import vagent
import vber
import vclock
import vstrategies as vs
import vworld
from vrunner import Result, Unit, enumeration_unit, hypothesis_unit, shard_seed

ID = "C05"
LEVEL = "exploration"
TECHNIQUE = ("property-based testing (Hypothesis) + length sweeps: every datagram at the sender seam is decoded by the "
             "independent strict BER/SNMP decoder (lib/vber.py) and compared field by field with the request the caller "
             "intended; v3 digests are verified by the independent RFC 3414 implementation")
RULE = ("case = operation (12 API operations + the implied v3 discovery probe) x OID lists (2..128 arcs, sub-identifiers at "
        "7-bit boundaries up to 2^32-1) x SET values of every type over full ranges (strings 0..300, TimeTicks also from "
        "timedelta) x request-id driven over Integer32 through the wall clock x community 0..64 chars / user, engine id "
        "5..32 octets (incl. runs of zero octets), context name, context engine id x v1/v2c/v3 at 3 levels with two "
        "privacy plug-ins x optional re-configuration history; non-trivial = >= 2 bindings, or a sub-identifier >= 128, or "
        "a datagram length in 120..135 / 250..262, or a value at a byte boundary; distinct = SHA-1 of canonical JSON case")
ASSUMPTIONS = [
    "non-minimal but valid BER (x690 writes length 127 as 81 7F) is accepted",
    "the request-id only has to be an Integer32 (identity with the response is C07)",
    "for walk-style operations every requested OID is a root or an OID the agent returned earlier, the first request asks "
    "for roots only and every root is requested at some point unless the agent has already answered endOfMibView behind a smaller OID (grouping and order are the implementation's choice; continuation requests may ask for any OID returned earlier or lying below a root)",
    "OIDs have >= 2 arcs, first arc 0..2, second arc < 40",
    "the wall clock stays inside Integer32 seconds",
]
REQUIRED_CLASSES = {"v3": 0.09, "v1": 0.024, "op=multiset": 0.024, "op=bulkget": 0.024, "boundary_len": 0.012}   # (60 % of the fractions first required: room for seed-to-seed variation)

PDU_OF = {"get": vber.PDU_GET, "multiget": vber.PDU_GET, "getnext": vber.PDU_GETNEXT, "multigetnext": vber.PDU_GETNEXT,
          "walk": vber.PDU_GETNEXT, "multiwalk": vber.PDU_GETNEXT, "table": vber.PDU_GETNEXT,
          "set": vber.PDU_SET, "multiset": vber.PDU_SET, "bulkget": vber.PDU_GETBULK,
          "bulkwalk": vber.PDU_GETBULK, "bulktable": vber.PDU_GETBULK}
WALKS = {"walk", "multiwalk", "table", "bulkwalk", "bulktable"}

DB = {(1, 3, 6, 1, 2, 1, 1, 1, 0): (vber.T_OCTETS, b"sys"),
      (1, 3, 6, 1, 2, 1, 2, 2, 1, 1, 1): (vber.T_INT, b"\x01"),
      (1, 3, 6, 1, 2, 1, 2, 2, 1, 1, 2): (vber.T_INT, b"\x02"),
      (1, 3, 6, 1, 2, 1, 2, 2, 1, 2, 1): (vber.T_OCTETS, b"lo"),
      (1, 3, 6, 1, 2, 1, 2, 2, 1, 2, 2): (vber.T_OCTETS, b"eth0"),
      (1, 3, 6, 1, 2, 1, 4, 1, 0): (vber.T_INT, b"\x01")}


def _make_set_value(tag, content, as_td):
    if tag == vber.T_TICKS and as_td:
        from puresnmp.types import TimeTicks

        return TimeTicks(timedelta(milliseconds=10 * vber.dec_int(content, signed=False)))
    return vworld.make_value(tag, content)


def run_case(case) -> Result:
    proto = case["proto"]
    op = case["op"]
    oids = [tuple(o) for o in case.get("oids", [])]
    setmap = [(tuple(o), t, bytes.fromhex(h), bool(td)) for o, t, h, td in case.get("set", [])]
    version = {"1": 0, "2c": 1, "3": 3}[proto["v"]]
    classes = {"op=" + op, vworld.proto_label(proto)}
    if version == 3:
        classes.add("v3")
    if version == 0:
        classes.add("v1")
    if proto.get("via"):
        classes.add("reconfigured")
    db = dict(DB)
    for o in oids[:3]:
        db.setdefault(o + (1,), (vber.T_INT, b"\x07"))
    agent, client = vworld.make_world(proto, db, request_cap=40)
    O = vworld.OID
    bulk = case.get("bulk", 2)

    async def drain(agen):
        async for _ in agen:
            pass

    async def go():
        if op == "get":
            return await client.get(O(oids[0]))
        if op == "multiget":
            return await client.multiget([O(o) for o in oids])
        if op == "getnext":
            return await client.getnext(O(oids[0]))
        if op == "multigetnext":
            return await client.multigetnext([O(o) for o in oids])
        if op == "walk":
            return await drain(client.walk(O(oids[0])))
        if op == "multiwalk":
            return await drain(client.multiwalk([O(o) for o in oids]))
        if op == "bulkwalk":
            return await drain(client.bulkwalk([O(o) for o in oids], bulk_size=bulk))
        if op == "table":
            return await client.table(O(oids[0]))
        if op == "bulktable":
            return await client.bulktable(O(oids[0]), bulk_size=bulk)
        if op == "set":
            o, t, c, td = setmap[0]
            return await client.set(O(o), _make_set_value(t, c, td))
        if op == "multiset":
            return await client.multiset({O(o): _make_set_value(t, c, td) for o, t, c, td in setmap})
        if op == "bulkget":
            return await client.bulkget([O(o) for o in case["scalars"]], [O(o) for o in case["repeaters"]],
                                        max_list_size=case["maxrep"])
        raise ValueError(op)

    exc = None
    with vclock.fixed(case.get("clock", 1_700_000_000)):
        try:
            vworld.run(go())
        except vagent.AgentInternalError as e:
            exc = e
            return Result("%s %s: emitted a datagram the independent decoder rejects: %s (datagram %s)" % (
                vworld.proto_label(proto), op, e, agent.log[-1]["raw"].hex() if agent.log else ""), True, sorted(classes))
        except vagent.CapExceeded:
            return Result("%s sent more than 40 requests" % op, True, sorted(classes))
        except Exception as e:  # noqa -- the outcome of the call is not this property's business
            exc = e

    reqs = list(agent.log)
    lens = [len(r["raw"]) for r in reqs]
    if any(120 <= n <= 135 or 250 <= n <= 262 for n in lens):
        classes.add("boundary_len")
    all_oids = oids + [o for o, _, _, _ in setmap] + [tuple(o) for o in case.get("scalars", []) + case.get("repeaters", [])]
    nvb = max(len(oids), len(setmap), len(case.get("scalars", [])) + len(case.get("repeaters", [])))
    nontrivial = (nvb >= 2 or any(s >= 128 for o in all_oids for s in o) or "boundary_len" in classes
                  or any(len(c) in (126, 127, 128, 255, 256) for _, _, c, _ in setmap))
    cls = sorted(classes)
    head = "%s %s" % (vworld.proto_label(proto), op)

    def bad(msg, r=None):
        return Result("%s: %s%s" % (head, msg, (" (datagram %s)" % r["raw"].hex()[:400]) if r else ""), nontrivial, cls)

    if not reqs:
        return bad("no datagram was emitted (%r)" % (exc,))
    returned = set()          # OIDs the agent has returned so far (continuation targets)
    data_reqs = []
    disco_seen = False
    for i, r in enumerate(reqs):
        if r["version"] != version:
            return bad("datagram %d carries version %d, the credentials are %s" % (i, r["version"], proto["v"]), r)
        if version in (0, 1):
            want = proto.get("community", "public").encode("ascii")
            if r["community"] != want:
                return bad("community %r, configured %r" % (r["community"], want), r)
            pdu = r["pdu"]
        else:
            if not (-2 ** 31 <= r["msg_id"] <= 2 ** 31 - 1) or r["msg_id"] < 0:
                return bad("msgID %d outside 0..2^31-1" % r["msg_id"], r)
            if r["max_size"] < 484 or r["max_size"] > 2 ** 31 - 1:
                return bad("msgMaxSize %d outside 484..2^31-1" % r["max_size"], r)
            if r["sec_model"] != 3:
                return bad("msgSecurityModel %d" % r["sec_model"], r)
            if r.get("discovery"):
                disco_seen = True
                if r["flags"] != 0x04 or r["digest"] or r["salt"] or "pdu" not in r or r["pdu"]["vbs"] \
                        or r["pdu"]["tag"] != vber.PDU_GET:
                    return bad("malformed discovery probe (flags %#x)" % r["flags"], r)
                continue
            user = agent.users[proto.get("user", "usr").encode("ascii")]
            if r["engine_id"] != agent.engine_id:
                return bad("msgAuthoritativeEngineID %s, the agent's engine id is %s" % (r["engine_id"].hex(), agent.engine_id.hex()), r)
            if r["user"] != user.name:
                return bad("msgUserName %r, configured %r" % (r["user"], user.name), r)
            if r["flags"] != (user.level | 0x04):
                return bad("msgFlags %#04x, expected %#04x (level of the credentials + reportable)" % (r["flags"], user.level | 4), r)
            if len(r["digest"]) != (12 if user.level & 1 else 0):
                return bad("msgAuthenticationParameters has %d octets" % len(r["digest"]), r)
            if bool(r["salt"]) != bool(user.level & 2) and user.level & 2 == 0:
                return bad("msgPrivacyParameters %s without privacy" % r["salt"].hex(), r)
            if r.get("verdict") != "accepted":
                return bad("the independent USM implementation answers %s" % r.get("verdict"), r)
            if not disco_seen:
                return bad("request sent before any discovery probe", r)
            want_ce = bytes.fromhex(proto.get("ctx_engine", "")) or agent.engine_id
            if r["ctx_engine"] != want_ce:
                return bad("contextEngineID %s, expected %s" % (r["ctx_engine"].hex(), want_ce.hex()), r)
            if r["ctx_name"] != bytes.fromhex(proto.get("ctx_name", "")):
                return bad("contextName %r, configured %r" % (r["ctx_name"], bytes.fromhex(proto.get("ctx_name", ""))), r)
            pdu = r["pdu"]
        data_reqs.append((r, pdu))
    for k, (r, pdu) in enumerate(data_reqs):
        if pdu["tag"] != PDU_OF[op]:
            return bad("PDU tag %#04x, %s needs %#04x" % (pdu["tag"], op, PDU_OF[op]), r)
        if not -2 ** 31 <= pdu["rid"] <= 2 ** 31 - 1:
            return bad("request-id %d is not an Integer32" % pdu["rid"], r)
        got = [(o, t, c) for o, t, c in pdu["vbs"]]
        if op in ("bulkget", "bulkwalk", "bulktable"):
            wn, wm = (len(case["scalars"]), case["maxrep"]) if op == "bulkget" else (0, bulk)
            if (pdu["f1"], pdu["f2"]) != (wn, wm):
                return bad("non-repeaters/max-repetitions %d/%d, the caller gave %d/%d" % (pdu["f1"], pdu["f2"], wn, wm), r)
        elif (pdu["f1"], pdu["f2"]) != (0, 0):
            return bad("error-status/error-index %d/%d in a request" % (pdu["f1"], pdu["f2"]), r)
        if op in ("set", "multiset"):
            if len(got) != len(setmap):
                return bad("%d bindings, the caller supplied %d" % (len(got), len(setmap)), r)
            for (o, t, c), (wo, wt, wc, _) in zip(got, setmap):
                if o != wo:
                    return bad("binding OID %s, the caller gave %s" % (vagent.S(o), vagent.S(wo)), r)
                try:
                    have = vber.typed_value(t, c)
                except vber.BerError as e:
                    return bad("value for %s is not well-formed: %s" % (vagent.S(o), e), r)
                want = vber.typed_value(wt, wc)
                if have != want or type(have[1]) is not type(want[1]):
                    return bad("value for %s decodes to %r, the caller supplied %r" % (vagent.S(o), have, want), r)
        else:
            if any(t != vber.T_NULL or c for _, t, c in got):
                return bad("a read request binds something else than NULL", r)
            goids = [o for o, _, _ in got]
            if op in WALKS:
                # only what the statement fixes: the client asks for the caller's roots and, to continue, for OIDs the
                # agent returned earlier -- in whatever grouping and order it likes
                roots = oids
                if k == 0 and not set(goids) <= set(roots):
                    return bad("first request asks for %s, the roots are %s" % (
                        [vagent.S(o) for o in goids], [vagent.S(o) for o in roots]), r)
                for o in goids:
                    if o not in returned and not any(o[:len(r0)] == r0 for r0 in roots):
                        return bad("continuation request asks for %s which the agent never returned" % vagent.S(o), r)
            else:
                want = oids if op != "bulkget" else [tuple(o) for o in case["scalars"] + case["repeaters"]]
                if goids != want:
                    return bad("requested OIDs %s, the caller gave %s" % (
                        [vagent.S(o) for o in goids], [vagent.S(o) for o in want]), r)
        for o, _, _ in (r.get("answer") or (0, 0, []))[2]:
            returned.add(o)
    if op in WALKS and data_reqs:
        asked = set()
        for r2, pdu2 in data_reqs:
            asked |= {o for o, _, _ in pdu2["vbs"]}
        eom_at = [o for r2, _ in data_reqs for o, t, _c in (r2.get("answer") or (0, 0, []))[2] if t == vber.T_ENDOFMIBVIEW]
        missing = [o for o in oids if o not in asked and not any(e < o for e in eom_at)]
        if missing and exc is None:
            return bad("root %s was never requested" % vagent.S(missing[0]))
    if op not in WALKS and len(data_reqs) != 1:
        return bad("%d request datagrams for one %s" % (len(data_reqs), op))
    if not data_reqs:
        return bad("no request datagram (%r)" % (exc,))
    return Result(None, nontrivial, cls, observations={"max_datagram": max(lens)})


# --------------------------------------------------------------------------
# generators

ARC = st.one_of(st.integers(0, 9), st.sampled_from(vs.SUBID_BOUNDARY), st.integers(0, 2 ** 32 - 1))


@st.composite
def long_oid(draw):
    head = draw(st.sampled_from([(1, 3), (0, 0), (0, 39), (1, 0), (1, 39), (2, 0), (2, 39), (1, 3, 6, 1, 4, 1)]))
    n = draw(st.one_of(st.integers(0, 6), st.integers(0, 14), st.sampled_from([0, 60, 126])))
    return list(head + tuple(draw(st.lists(ARC, min_size=n, max_size=n))))


ENGINE_IDS = [b"\x80\x00\x1f\x88\x80verif-agent", b"\x80\x00\x00\x09\x05" + b"\x00" * 12 + b"\x00\x00\x2a",
              b"\x80\x00\x02\xb8\x02\xfe\x80" + b"\x00" * 13 + b"\x01", b"\x00" * 12, b"12345", b"\xff" * 32,
              b"\x80\x00\x00\x00\x01\x7f\x00\x00\x01"]


@st.composite
def protos(draw):
    kind = draw(st.sampled_from(["1", "2c", "2c", "2c", "3", "3", "3"]))
    if kind != "3":
        comm = draw(st.one_of(st.sampled_from(["public", "private", "", "a" * 64]),
                              st.text(alphabet=st.characters(min_codepoint=32, max_codepoint=126), max_size=64)))
        p = {"v": kind, "community": comm}
    else:
        base = dict(draw(st.sampled_from(vworld.V3_PROTOS)))
        base["user"] = draw(st.one_of(st.just(base["user"]),
                                       st.text(alphabet=st.characters(min_codepoint=33, max_codepoint=126), min_size=1, max_size=32)))
        base["engine_id"] = draw(st.one_of(st.sampled_from(ENGINE_IDS), st.binary(min_size=5, max_size=32))).hex()
        if draw(st.booleans()):
            base["ctx_name"] = draw(st.binary(max_size=40)).hex()
        if draw(st.integers(0, 3)) == 0:
            base["ctx_engine"] = draw(st.one_of(st.sampled_from(ENGINE_IDS), st.binary(min_size=5, max_size=32))).hex()
        p = base
    if draw(st.integers(0, 7)) == 0:
        p = dict(p, via=draw(st.sampled_from([vworld.V1_PROTO, vworld.V2C_PROTO, vworld.V3_PROTOS[0], vworld.V3_PROTOS[3],
                                              {"v": "2c", "community": "other"}])))
    return p


@st.composite
def cases(draw):
    proto = draw(protos())
    ops = ["get", "multiget", "getnext", "multigetnext", "walk", "multiwalk", "table", "set", "multiset", "multiset"]
    if proto["v"] != "1":
        ops += ["bulkget", "bulkget", "bulkwalk", "bulktable"]
    op = draw(st.sampled_from(ops))
    case = dict(proto=proto, op=op,
                clock=draw(st.one_of(st.sampled_from([0, 1, 127, 128, 255, 256, 32767, 32768, 2 ** 23 - 1, 2 ** 23,
                                                     2 ** 31 - 2, 2 ** 31 - 1, 1_700_000_000]),
                                     st.integers(0, 2 ** 31 - 1))))
    if op in ("get", "getnext", "walk", "table", "bulktable"):
        case["oids"] = [draw(long_oid())]
    elif op in ("multiget", "multigetnext"):
        if draw(st.integers(0, 9)) == 0:
            # hundreds of bindings in one request (binding list longer than 127 / 255 / 65535 octets)
            n = draw(st.sampled_from([40, 128, 300, 2000]))
            case["oids"] = [[1, 3, 6, 1, 2, 1, 2, 2, 1, 1 + i % 22, 1 + i // 22] for i in range(n)]
        else:
            case["oids"] = draw(st.lists(long_oid(), min_size=1, max_size=10))
    elif op in ("multiwalk", "bulkwalk"):
        # pairwise disjoint roots: distinct heads below a common prefix
        pre = draw(long_oid())[:8]
        # (sub-identifiers of different encoded widths: 1, 2, 3 and 5 octets)
        heads = draw(st.lists(st.one_of(st.integers(0, 40), st.sampled_from([127, 128, 300, 2636, 16383, 16384, 30065, 2 ** 21,
                                                                             2 ** 28, 2 ** 32 - 1])),
                              min_size=1, max_size=4, unique=True))
        case["oids"] = [pre + [h] for h in heads]
    elif op in ("set", "multiset"):
        n = 1 if op == "set" else draw(st.integers(1, 6))
        targets = draw(st.lists(long_oid(), min_size=n, max_size=n, unique_by=tuple))
        tags = vs.V1_TAGS if proto["v"] == "1" else None
        out = []
        for t in targets:
            tag, h = draw(vs.value(tags=tags, allow_null=False,
                                   max_octets=draw(st.sampled_from([8, 24, 130, 300]))))
            if tag in (vber.T_OCTETS, vber.T_OPAQUE) and draw(st.integers(0, 3)) == 0:
                h = (b"\xa5" * draw(st.sampled_from([0, 126, 127, 128, 255, 256]))).hex()
            as_td = tag == vber.T_TICKS and draw(st.booleans())
            if as_td and draw(st.booleans()):
                # everyday durations (centiseconds up to a few minutes), where float conversions lose ticks
                h = vber.int_content(draw(st.integers(0, 30000))).hex()
            out.append([t, tag, h, as_td])
        case["set"] = out
    else:
        case["scalars"] = draw(st.lists(long_oid(), max_size=3))
        case["repeaters"] = draw(st.lists(long_oid(), min_size=0 if case["scalars"] else 1, max_size=3))
        case["maxrep"] = draw(st.sampled_from([0, 1, 2, 10, 127, 128, 255, 65535, 2 ** 31 - 1]))
    if op in ("bulkwalk", "bulktable"):
        case["bulk"] = draw(st.sampled_from([1, 2, 10, 127, 128, 255, 1000]))
    return case


class _Sweep:
    """SET of an OCTET STRING of every length 0..n: the total datagram length
    (and every enclosing TLV length) sweeps through 127/128/255/256."""

    def __init__(self, proto, n, step, off):
        self.a = (proto, n, step, off)

    def __iter__(self):
        proto, n, step, off = self.a
        for L in range(off, n, step):
            yield dict(proto=proto, op="set", clock=1_700_000_000,
                       set=[[[1, 3, 6, 1, 4, 1, 9, 1, 0], vber.T_OCTETS, (b"\x5a" * L).hex(), False]])
            yield dict(proto=proto, op="multiget", clock=77,
                       oids=[[1, 3, 6, 1, 4, 1, 9, i] for i in range(L // 4)] or [[1, 3, 6, 1, 4, 1, 9, 0]])


class _TickSweep:
    """every tick count lo..hi built from a timedelta and SET, six bindings per request"""

    def __init__(self, proto, lo, hi):
        self.a = (proto, lo, hi)

    def __iter__(self):
        proto, lo, hi = self.a
        for base in range(lo, hi, 6):
            yield dict(proto=proto, op="multiset", clock=1_700_000_000,
                       set=[[[1, 3, 6, 1, 4, 1, 9, 7, i], vber.T_TICKS, vber.int_content(v).hex(), True]
                            for i, v in enumerate(range(base, min(base + 6, hi)))])


def units(tier, seed):
    us = []
    top = 3000 if tier == "quick" else 120000
    for k in range(4):
        us.append(Unit("ticks-from-timedelta-%d" % k, enumeration_unit,
                       cases=_TickSweep(vworld.V2C_PROTO, k * top // 4, (k + 1) * top // 4),
                       label="ticks-from-timedelta-%d" % k, exhaustive=False, sample_every=101))
    n = 260 if tier == "quick" else 10000
    for sh in range(16):
        us.append(Unit("hyp-%d" % sh, hypothesis_unit, strategy=cases(), examples=n,
                       seed=shard_seed(seed, sh), label="hyp-%d" % sh))
    sweep_protos = [vworld.V2C_PROTO, vworld.V3_PROTOS[1], vworld.V3_PROTOS[4]]
    if tier == "thorough":
        sweep_protos = [vworld.V1_PROTO, vworld.V2C_PROTO] + vworld.V3_PROTOS
    for i, p in enumerate(sweep_protos):
        for off in range(2):
            us.append(Unit("sweep-%s-%d" % (vworld.proto_label(p), off), enumeration_unit,
                           cases=_Sweep(p, 340, 2, off), label="sweep-%s-%d" % (vworld.proto_label(p), off),
                           exhaustive=False, sample_every=97))
    return us
