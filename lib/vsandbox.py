"""vsandbox -- safety net for checks that deliver non-authentic bytes to the
client (C09, C19, C20): address-space limit, per-delivery CPU alarm, and the
root-cause guard for the dependency defect F20 (x690 loops forever on an
indefinite-length octet without terminator).

The guard is *exclusion by construction* of one confirmed finding so that the
search goes on behind it (DESIGN 1.5); every hit is counted, and the canned
replay of the finding runs with the guard removed (in a child process with
hard limits)."""
from __future__ import annotations

import resource
import signal

GUARD_HITS = [0]
_installed = {}


class HangDetected(BaseException):
    """CPU budget of one delivery exhausted (BaseException: must not be
    swallowed by ``except Exception`` in the code under test)."""


class GuardedIndefiniteLength(ValueError):
    """raised by the F20 guard instead of letting x690 loop forever"""


def install_guard() -> None:
    if _installed:
        return
    import x690.types as xt
    import x690.util as xu

    orig = xu.get_value_slice

    def guarded(data, index=0):
        if index + 1 < len(data) and data[index + 1] == 0x80 and data.find(b"\x00\x00", index) == -1:
            GUARD_HITS[0] += 1
            raise GuardedIndefiniteLength("indefinite length without terminator at %d" % index)
        return orig(data, index)

    _installed["orig"] = orig
    xu.get_value_slice = guarded
    xt.get_value_slice = guarded


def remove_guard() -> None:
    if not _installed:
        return
    import x690.types as xt
    import x690.util as xu

    xu.get_value_slice = _installed["orig"]
    xt.get_value_slice = _installed["orig"]
    _installed.clear()


def limit_memory(nbytes: int = 3 << 30) -> None:
    try:
        soft, hard = resource.getrlimit(resource.RLIMIT_AS)
        resource.setrlimit(resource.RLIMIT_AS, (nbytes, hard))
    except (ValueError, OSError):
        pass


def _on_alarm(signum, frame):
    raise HangDetected("CPU budget exhausted")


class cpu_budget:
    """with cpu_budget(seconds): ...   raises HangDetected inside the block
    when the process has used that much CPU time (user+system)."""

    def __init__(self, seconds: float):
        self.seconds = seconds

    def __enter__(self):
        self.old = signal.signal(signal.SIGPROF, _on_alarm)
        # repeated: code under test may swallow the first HangDetected (a bare `except:`) and go on computing
        signal.setitimer(signal.ITIMER_PROF, self.seconds, 0.5)
        return self

    def __exit__(self, *a):
        signal.setitimer(signal.ITIMER_PROF, 0)
        signal.signal(signal.SIGPROF, self.old)
        return False


def run_isolated(fn, arg, cpu_s=10, mem=2 << 30, wall_s=60):
    """Run fn(arg) in a forked child with hard limits; -> ('ok', value) |
    ('exc', repr) | ('hang', None) | ('memory', None).  Used for the canned
    replays that run WITHOUT the guard."""
    import multiprocessing as mp
    import time

    ctx = mp.get_context("fork")
    parent, child = ctx.Pipe(duplex=False)

    def target():
        try:
            resource.setrlimit(resource.RLIMIT_AS, (mem, mem))
            resource.setrlimit(resource.RLIMIT_CPU, (int(cpu_s), int(cpu_s) + 1))
            try:
                child.send(("ok", fn(arg)))
            except MemoryError:
                child.send(("memory", None))
            except BaseException as e:  # noqa
                child.send(("exc", "%s: %s" % (type(e).__name__, e)))
        finally:
            child.close()

    p = ctx.Process(target=target, daemon=True)
    p.start()
    t0 = time.time()
    out = None
    while time.time() - t0 < wall_s:
        if parent.poll(0.05):
            try:
                out = parent.recv()
            except EOFError:
                out = None
            break
        if not p.is_alive():
            if parent.poll(0.05):
                try:
                    out = parent.recv()
                except EOFError:
                    out = None
            break
    if p.is_alive():
        p.kill()
    p.join(5)
    if out is not None:
        return out
    # killed by RLIMIT_CPU (SIGXCPU/SIGKILL) or the wall clock: a hang; by the kernel for memory: memory
    if p.exitcode is not None and p.exitcode < 0 and -p.exitcode in (signal.SIGXCPU, signal.SIGKILL):
        return ("hang", None)
    if p.exitcode is None or time.time() - t0 >= wall_s:
        return ("hang", None)
    return ("memory", None)
