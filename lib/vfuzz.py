"""vfuzz -- run a coverage-guided atheris (libFuzzer) campaign as one work
unit of a check.  The target (fuzz/target.py) carries the semantic oracle; a
crash artefact is converted into the check's ordinary JSON replay case and
re-confirmed in-process without atheris."""
from __future__ import annotations

import glob
import json
import os
import shutil
import subprocess
import sys
import tempfile
import time

VERIF = os.path.dirname(os.path.dirname(os.path.abspath(__file__)))


def ensure_atheris() -> bool:
    """atheris lives in VERIF/.deps (installed by MANIFEST.setup_cmd); install it from the offline wheelhouse if a
    checkout without .deps is used (e.g. a snapshot)."""
    deps = os.path.join(VERIF, ".deps")
    probe = [sys.executable, "-c", "import sys; sys.path.insert(0, %r); import atheris" % deps]
    if subprocess.run(probe, stdout=subprocess.DEVNULL, stderr=subprocess.DEVNULL).returncode == 0:
        return True
    os.makedirs(deps, exist_ok=True)
    subprocess.run([sys.executable, "-m", "pip", "install", "--quiet", "--no-index", "--find-links", "/opt/veriftools/wheels",
                    "--target", deps, "atheris"], stdout=subprocess.DEVNULL, stderr=subprocess.DEVNULL)
    return subprocess.run(probe, stdout=subprocess.DEVNULL, stderr=subprocess.DEVNULL).returncode == 0


def fuzz_unit(check, stats, *, mode, runs, seed, label, known_ids=(), corpus=(), max_len=2048, wall_s=600):
    t0 = time.time()
    if not ensure_atheris():
        stats.errors.append("%s: atheris is not importable and could not be installed from /opt/veriftools/wheels" % label)
        return
    work = tempfile.mkdtemp(prefix="vfuzz-%s-" % label)
    cdir = os.path.join(work, "corpus")
    adir = os.path.join(work, "artifacts")
    os.makedirs(cdir)
    os.makedirs(adir)
    for i, data in enumerate(corpus):
        with open(os.path.join(cdir, "seed-%03d" % i), "wb") as fh:
            fh.write(data)
    stats_file = os.path.join(work, "stats.json")
    cmd = [sys.executable, os.path.join(VERIF, "fuzz", "target.py"), "--mode", mode, "--stats", stats_file,
           "-runs=%d" % runs, "-seed=%d" % (seed % (2 ** 31 - 1) or 1), "-max_len=%d" % max_len, "-timeout=30", "-rss_limit_mb=3500",
           "-artifact_prefix=" + adir + "/", "-print_final_stats=1", cdir]
    env = dict(os.environ, PYTHONHASHSEED="0")
    status = "completed"
    tail = ""
    try:
        p = subprocess.run(cmd, cwd=VERIF, env=env, stdout=subprocess.PIPE, stderr=subprocess.STDOUT, text=True,
                           errors="replace", timeout=wall_s)
        tail = p.stdout[-1500:]
        if p.returncode != 0:
            status = "stopped rc=%d" % p.returncode
    except subprocess.TimeoutExpired as e:
        status = "wall-clock budget hit"
        tail = (e.stdout or b"")[-1500:] if isinstance(e.stdout, (bytes, str)) else ""
        stats.inconclusive += 1
    counters = {}
    try:
        counters = json.load(open(stats_file))
    except Exception:  # noqa
        pass
    execs = int(counters.get("execs", 0))
    stats.evaluations += execs
    stats.extra_nontrivial += int(counters.get("distinct_nontrivial", 0))
    stats.classes["fuzz_execs"] = stats.classes.get("fuzz_execs", 0) + execs
    ncorpus = len(os.listdir(cdir))
    found = 0
    for art in sorted(glob.glob(os.path.join(adir, "*"))):
        data = open(art, "rb").read()
        kind = os.path.basename(art).split("-")[0]
        case = check.fuzz_case(data)
        if case is None:
            continue
        try:
            res = check.run_case(case)
        except BaseException as e:  # noqa
            res = None
            stats.errors.append("%s: replaying fuzz artefact %s raised %r" % (label, os.path.basename(art), e))
            continue
        if res.violation is not None:
            if res.known is not None and res.known in known_ids:
                stats.excluded_known[res.known] = stats.excluded_known.get(res.known, 0) + 1
                continue
            stats.violations.append(dict(case=case, message="[found by atheris, %s] %s" % (kind, res.violation), unit=label))
            found += 1
        else:
            stats.inconclusive += 1
    if not execs and status != "completed":
        stats.errors.append("%s: fuzz target did not run: %s %s" % (label, status, tail[-400:]))
    if len(stats.samples) < 3 and corpus:
        stats.samples.append((len(corpus[0]) * 2, dict(fuzz_seed_input=corpus[0].hex()[:400], mode=mode)))
    stats.units.append(dict(unit=label, kind="atheris", mode=mode, runs_requested=runs, execs=execs, seed=seed,
                            corpus_files_at_end=ncorpus, seed_corpus=len(corpus), status=status, violations=found,
                            guard_hits=counters.get("guard_hits"), wall_s=round(time.time() - t0, 2)))
    shutil.rmtree(work, ignore_errors=True)
