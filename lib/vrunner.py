"""vrunner -- shared driver for all checks: bootstrap, seeds, sharding over
cores, evidence, replay files, known findings, exit codes.

A check module provides

    ID, LEVEL, RULE, TECHNIQUE, ASSUMPTIONS
    units(tier, seed) -> list[Unit]          work units (run in forked workers)
    run_case(case) -> Result                  the oracle, on one JSON case
    (optional) replay(case) -> Result         defaults to run_case
    (optional) REQUIRED_CLASSES = {label: min_fraction}
    (optional) finish(stats, tier) -> None    post-processing of merged stats

Verdict protocol (DESIGN.md 1.3): exit 0 held / exit 1 + VIOLATION line /
exit 2 HARNESS-ERROR.
"""
from __future__ import annotations

import hashlib
import zlib
import json
import os
import sys
import time
import traceback

VERIF = os.path.dirname(os.path.dirname(os.path.abspath(__file__)))
REPO_SRC = os.environ.get("VERIF_REPO_SRC", "/repo/src")
DEPS = os.path.join(VERIF, ".deps")
NCPU = int(os.environ.get("VERIF_JOBS", "16"))


class HarnessError(Exception):
    pass


# --------------------------------------------------------------------------
# bootstrap


def bootstrap() -> None:
    """Make the process a pure function of (code, VERIF_SEED): fixed hash
    seed, puresnmp imported from the current working tree of /repo, harness
    plug-ins on the path, logging silenced."""
    if os.environ.get("PYTHONHASHSEED") != "0":
        os.environ["PYTHONHASHSEED"] = "0"
        os.execv(sys.executable, [sys.executable] + sys.argv)
    for p in (os.path.join(VERIF, "plugins"), DEPS, os.path.join(VERIF, "lib"),
              VERIF, REPO_SRC):
        if p in sys.path:
            sys.path.remove(p)
        sys.path.insert(0, p)
    sys.dont_write_bytecode = True
    import logging
    import warnings

    logging.disable(logging.CRITICAL)
    warnings.simplefilter("ignore")
    ensure_deps()
    import vclock

    vclock.install()   # before puresnmp binds `from time import time`
    import puresnmp  # noqa

    where = os.path.realpath(puresnmp.__file__)
    if not where.startswith(os.path.realpath(REPO_SRC) + os.sep):
        raise HarnessError("puresnmp imported from %s, not from %s" % (where, REPO_SRC))
    import puresnmp_plugins.priv.verifstream  # noqa  (namespace merge works)


def ensure_deps() -> None:
    try:
        import hypothesis  # noqa
        return
    except ImportError:
        pass
    import subprocess

    os.makedirs(DEPS, exist_ok=True)
    subprocess.run(
        [sys.executable, "-m", "pip", "install", "--quiet", "--no-index",
         "--find-links", "/opt/veriftools/wheels", "--target", DEPS,
         "hypothesis"],
        check=False, stdout=subprocess.DEVNULL, stderr=subprocess.DEVNULL,
    )
    import importlib

    importlib.invalidate_caches()
    try:
        import hypothesis  # noqa
    except ImportError as exc:
        raise HarnessError("hypothesis is not installable offline: %s" % exc)


# --------------------------------------------------------------------------
# results and statistics


class UnitTimeout(BaseException):
    """a work unit ran into its wall-clock limit (BaseException: not to be swallowed by the code under test)"""


class Result:
    """Outcome of the oracle on one case."""

    __slots__ = ("violation", "nontrivial", "classes", "known", "inconclusive",
                 "observations", "key")

    def __init__(self, violation=None, nontrivial=False, classes=(), known=None,
                 inconclusive=False, observations=None, key=None):
        self.violation = violation      # None | str (what the oracle saw)
        self.nontrivial = nontrivial
        self.classes = tuple(classes)
        self.known = known              # id of a known finding this failure is attributed to
        self.inconclusive = inconclusive
        self.observations = observations or {}
        self.key = key                  # optional explicit distinctness key


class _FormatHandler:
    """what a user's log handler does with a record: build the message (exceptions while doing so are reported by the
    logging package, they never reach the caller of the logging function)"""
    level = 0

    def handle(self, record):
        try:
            record.getMessage()
        except Exception:  # noqa
            pass
        return True


class logging_mode:
    """Context manager: inside it the library logs as it does for a user who has switched DEBUG logging on (every record
    is formatted, nothing is printed); outside, logging is disabled as bootstrap() left it."""

    def __init__(self, on):
        self.on = bool(on)

    def __enter__(self):
        import logging

        self.saved = None
        if self.on:
            root = logging.getLogger()
            self.saved = (logging.root.manager.disable, root.level, list(root.handlers))
            logging.disable(logging.NOTSET)
            root.setLevel(logging.DEBUG)
            root.handlers = [_FormatHandler()]
        return self

    def __exit__(self, *exc):
        import logging

        if self.saved is not None:
            root = logging.getLogger()
            root.handlers = self.saved[2]
            root.setLevel(self.saved[1])
            logging.disable(self.saved[0])
        return False


def wants_logging(case) -> bool:
    """the logging mode of a case: its own "debug" entry if it has one, else a fixed function of the case (one in four)"""
    if isinstance(case, dict) and "debug" in case:
        return bool(case["debug"])
    try:
        return zlib.crc32(canon(case).encode()) % 4 == 0
    except Exception:  # noqa
        return False


def with_logging(run):
    """wrap an oracle so that it runs each case in the case's logging mode"""
    def wrapped(case):
        on = wants_logging(case)
        with logging_mode(on):
            try:
                res = run(case)
            except Exception as exc:  # noqa
                # one kind of exception that escapes an oracle is the code under test's doing, not the harness's: the API
                # returned an object and reading its (lazily decoded) value raises
                import vworld

                if not isinstance(exc, vworld.Unreadable):
                    raise
                res = Result("the value handed to the caller cannot be read: %s" % exc, True, ("unreadable_result",))
        if on and "debug_logging" not in res.classes:
            res.classes = tuple(res.classes) + ("debug_logging",)
        return res
    return wrapped


def canon(case) -> str:
    return json.dumps(case, sort_keys=True, separators=(",", ":"), default=str)


def digest(case) -> int:
    return int.from_bytes(hashlib.sha1(canon(case).encode()).digest()[:8], "big")


class Stats:
    def __init__(self):
        self.evaluations = 0
        self.nontrivial = set()
        self.extra_nontrivial = 0   # distinct-by-construction non-trivial cases of enumerated ranges
        self.classes = {}
        self.excluded_known = {}
        self.inconclusive = 0
        self.violations = []      # list of dict(case=..., message=..., unit=...)
        self.samples = []         # (size, case)
        self.observations = {}
        self.exhaustive_units = 0
        self.units = []
        self.errors = []

    def record(self, case, res: Result, sample=True) -> None:
        self.evaluations += 1
        for c in res.classes:
            self.classes[c] = self.classes.get(c, 0) + 1
        for k, v in res.observations.items():
            if isinstance(v, (int, float)):
                self.observations[k] = max(self.observations.get(k, v), v)
            else:
                self.observations.setdefault(k, v)
        if res.inconclusive:
            self.inconclusive += 1
        if res.nontrivial:
            d = digest(case) if res.key is None else digest(res.key)
            if d not in self.nontrivial:
                self.nontrivial.add(d)
                if sample:
                    self._sample(case)

    def _sample(self, case) -> None:
        size = len(canon(case))
        if size > 6000:
            return
        if len(self.samples) < 2:
            self.samples.append((size, case))
        elif len(self.samples) < 3 or size > self.samples[2][0]:
            self.samples[2:3] = [(size, case)]

    def merge(self, other: "Stats") -> None:
        self.evaluations += other.evaluations
        self.nontrivial |= other.nontrivial
        self.extra_nontrivial += other.extra_nontrivial
        for k, v in other.classes.items():
            self.classes[k] = self.classes.get(k, 0) + v
        for k, v in other.excluded_known.items():
            self.excluded_known[k] = self.excluded_known.get(k, 0) + v
        for k, v in other.observations.items():
            if isinstance(v, (int, float)) and isinstance(self.observations.get(k, v), (int, float)):
                self.observations[k] = max(self.observations.get(k, v), v)
            else:
                self.observations.setdefault(k, v)
        self.inconclusive += other.inconclusive
        self.violations.extend(other.violations)
        self.samples.extend(other.samples)
        self.exhaustive_units += other.exhaustive_units
        self.units.extend(other.units)
        self.errors.extend(other.errors)


# --------------------------------------------------------------------------
# known findings


def load_known():
    """-> (known: {property: {finding_id: dict}}, fixed: [lines])"""
    known, fixed = {}, []
    path = os.path.join(VERIF, "KNOWN_FINDINGS.txt")
    if not os.path.exists(path):
        return known, fixed
    for line in open(path):
        line = line.strip()
        if not line or line.startswith("#"):
            continue
        if line.startswith("fixed:"):
            fixed.append(line)
            continue
        if not line.startswith("known:"):
            raise HarnessError("bad KNOWN_FINDINGS line: %r" % line)
        head, _, what = line[len("known:"):].partition("::")
        fields = dict(tok.split("=", 1) for tok in head.split())
        entry = dict(property=fields["property"], id=fields["id"],
                     replay=fields.get("replay"), what=what.strip(),
                     also=[p for p in fields.get("also", "").split(",") if p])
        known.setdefault(entry["property"], {})[entry["id"]] = entry
    return known, fixed


def known_ids_for(known, prop):
    """Finding ids a check of property ``prop`` may attribute failures to:
    its own findings plus findings of other properties that list it under
    ``also=`` (cross-property root causes, DESIGN 1.5).  Only the owning
    property prints the KNOWN-FINDING line."""
    ids = set(known.get(prop, {}))
    for entries in known.values():
        for e in entries.values():
            if prop in e["also"]:
                ids.add(e["id"])
    return tuple(sorted(ids))


# --------------------------------------------------------------------------
# work units


class Unit:
    """One piece of work executed in a forked worker."""

    def __init__(self, name, fn, **params):
        self.name = name
        self.fn = fn            # fn(check, stats, **params) -> None
        self.params = params


class _Violation(Exception):
    pass


def hypothesis_unit(check, stats: Stats, *, strategy, examples, seed, label="hyp",
                    known_ids=(), shrink=True, run=None):
    """Run ``check.run_case`` (or ``run``) over ``examples`` generated cases."""
    from hypothesis import HealthCheck, Phase, given, settings
    from hypothesis import seed as hseed
    from hypothesis import Verbosity

    try:
        import hypothesis.internal.conjecture.engine as _eng

        if hasattr(_eng, "MAX_SHRINKING_SECONDS"):
            _eng.MAX_SHRINKING_SECONDS = int(os.environ.get("VERIF_SHRINK_S", "90"))
    except Exception:
        pass
    run = with_logging(run or check.run_case)
    last = {}
    phases = [Phase.generate] + ([Phase.shrink] if shrink else [])

    @settings(max_examples=examples, database=None, deadline=None,
              derandomize=False, report_multiple_bugs=False,
              suppress_health_check=list(HealthCheck), phases=phases,
              verbosity=Verbosity.quiet, print_blob=False)
    @hseed(seed)
    @given(strategy)
    def test(case):
        res = run(case)
        stats.record(case, res)
        if res.violation is not None:
            if res.known is not None and res.known in known_ids:
                stats.excluded_known[res.known] = stats.excluded_known.get(res.known, 0) + 1
                return
            last["case"] = case
            last["message"] = res.violation
            raise _Violation(res.violation)

    t0 = time.time()
    try:
        test()
    except _Violation:
        stats.violations.append(dict(case=last["case"], message=last["message"], unit=label))
    except BaseException as exc:  # noqa
        # Hypothesis re-runs a failing case; an oracle that measures process-wide high-water marks (peak resident memory)
        # fails on the first run only.  The violation was observed: it is reported, not turned into a harness error.
        if "Flaky" in type(exc).__name__ and last.get("case") is not None:
            stats.violations.append(dict(case=last["case"], message=last["message"] + "  [seen on the first evaluation only]",
                                         unit=label))
        else:
            raise
    stats.units.append(dict(unit=label, kind="hypothesis", seed=seed,
                            max_examples=examples, wall_s=round(time.time() - t0, 2)))


def enumeration_unit(check, stats: Stats, *, cases, label="enum", known_ids=(),
                     exhaustive=True, run=None, stop_after=5, sample_every=1):
    """Run the oracle over an explicit iterable of cases (an enumerated finite
    space or a shard of it).  Violations are collected (not only the first)."""
    run = with_logging(run or check.run_case)
    t0 = time.time()
    n = 0
    for case in cases:
        res = run(case)
        stats.record(case, res, sample=(n % sample_every == 0))
        n += 1
        if res.violation is not None:
            if res.known is not None and res.known in known_ids:
                stats.excluded_known[res.known] = stats.excluded_known.get(res.known, 0) + 1
                continue
            stats.violations.append(dict(case=case, message=res.violation, unit=label))
            if len(stats.violations) >= stop_after:
                exhaustive = False
                break
    if exhaustive:
        stats.exhaustive_units += 1
    stats.units.append(dict(unit=label, kind="enumeration", cases=n,
                            exhaustive=bool(exhaustive), wall_s=round(time.time() - t0, 2)))
    if len(stats.violations) >= stop_after:
        stats.units[-1]["cut_short"] = True


def _run_unit(args):
    check_name, idx, tier, seed = args
    import importlib

    check = importlib.import_module(check_name)
    unit = check.units(tier, seed)[idx]
    stats = Stats()
    # harness safety: no worker may eat the machine (a changed tree that allocates without bound ends in MemoryError)
    try:
        import resource

        soft, hard = resource.getrlimit(resource.RLIMIT_AS)
        cap = int(os.environ.get("VERIF_WORKER_MEM", 6 << 30))
        if soft == resource.RLIM_INFINITY or soft > cap:
            resource.setrlimit(resource.RLIMIT_AS, (cap, hard))
    except (ValueError, OSError):
        pass
    known, _ = load_known()
    known_ids = known_ids_for(known, check.ID)
    # harness safety: a unit that does not come back (a changed tree that spins where no CPU budget is armed) ends as a harness
    # error (exit 2: inconclusive) instead of blocking the run for ever
    import signal

    limit = int(os.environ.get("VERIF_UNIT_WALL_S", 1500 if tier == "quick" else 4 * 3600))

    def _too_long(signum, frame):
        raise UnitTimeout("unit %s exceeded its wall-clock limit of %d s" % (unit.name, limit))

    signal.signal(signal.SIGALRM, _too_long)
    signal.setitimer(signal.ITIMER_REAL, limit, 5)
    try:
        unit.fn(check, stats, known_ids=known_ids, **unit.params)
    except HarnessError as exc:
        stats.errors.append("%s: %s" % (unit.name, exc))
    except BaseException as exc:  # noqa
        stats.errors.append("%s: %s\n%s" % (unit.name, exc, traceback.format_exc()))
    finally:
        signal.setitimer(signal.ITIMER_REAL, 0)
    return stats


# --------------------------------------------------------------------------
# driver


def shard_seed(seed: int, shard: int) -> int:
    return seed * 1000 + shard


def write_json(path, obj) -> None:
    tmp = path + ".tmp"
    with open(tmp, "w") as fh:
        json.dump(obj, fh, indent=1, sort_keys=True, default=str)
        fh.write("\n")
    os.replace(tmp, path)


def save_replay(check_id, violation) -> str:
    d = hashlib.sha1(canon(violation["case"]).encode()).hexdigest()[:12]
    path = os.path.join(os.environ.get("VERIF_REPLAY_DIR") or os.path.join(VERIF, "replays"), "%s-%s.json" % (check_id, d))
    os.makedirs(os.path.dirname(path), exist_ok=True)
    write_json(path, dict(property=check_id, case=violation["case"],
                          message=violation["message"], unit=violation.get("unit")))
    return path


def main(check_name: str, argv) -> int:
    import argparse
    import importlib

    ap = argparse.ArgumentParser(prog="check " + check_name)
    ap.add_argument("--quick", action="store_true")
    ap.add_argument("--thorough", action="store_true")
    ap.add_argument("--replay")
    ap.add_argument("--unit", help="run only units whose name contains this")
    ap.add_argument("--jobs", type=int, default=NCPU)
    ns = ap.parse_args(argv)
    tier = "thorough" if ns.thorough else "quick" if ns.quick else os.environ.get("VERIF_TIER", "quick")
    if tier not in ("quick", "thorough"):
        tier = "quick"
    try:
        seed = int(os.environ.get("VERIF_SEED", "1"))
    except ValueError:
        seed = 1

    try:
        bootstrap()
        import vagent
        import vber

        vber.selftest()
        vagent.selftest()
        check = importlib.import_module(check_name)
    except Exception as exc:  # noqa
        print("HARNESS-ERROR %s: %s" % (check_name, exc))
        traceback.print_exc()
        return 2

    if ns.replay:
        return _replay(check, ns.replay)

    t0 = time.time()
    known, _fixed = load_known()
    known_here = known.get(check.ID, {})
    try:
        units = check.units(tier, seed)
    except Exception as exc:  # noqa
        print("HARNESS-ERROR %s: %s" % (check.ID, exc))
        traceback.print_exc()
        return 2
    idxs = [i for i, u in enumerate(units) if not ns.unit or ns.unit in u.name]
    total = Stats()
    jobs = [(check_name, i, tier, seed) for i in idxs]
    if ns.jobs <= 1 or len(jobs) == 1:
        results = [_run_unit(j) for j in jobs]
    else:
        import multiprocessing as mp

        ctx = mp.get_context("fork")
        with ctx.Pool(min(ns.jobs, len(jobs)), maxtasksperchild=1) as pool:
            results = pool.map(_run_unit, jobs, chunksize=1)
    for st in results:
        total.merge(st)
    if hasattr(check, "finish"):
        check.finish(total, tier)

    # canned replays of the known findings listed for this property
    known_lines = []
    for fid, entry in sorted(known_here.items()):
        if not entry.get("replay"):
            continue
        path = os.path.join(VERIF, entry["replay"])
        try:
            case = json.load(open(path))["case"]
            fn = with_logging(getattr(check, "replay_known", None) or getattr(check, "replay", None) or check.run_case)
            res = fn(case)
        except Exception as exc:  # noqa
            total.errors.append("known replay %s: %s\n%s" % (fid, exc, traceback.format_exc()))
            continue
        if res.violation is not None:
            known_lines.append("KNOWN-FINDING: property=%s %s [id=%s replay=%s]" % (
                check.ID, entry["what"], fid, entry["replay"]))

    wall = time.time() - t0
    rc = 0
    out_lines = []
    # generator health: required classes
    req = getattr(check, "REQUIRED_CLASSES", {})
    if callable(req):
        req = req(tier)
    if not total.errors and not ns.unit and not total.violations:
        for label, frac in req.items():
            got = total.classes.get(label, 0) / max(1, total.evaluations)
            if got < frac:
                total.errors.append("generator regression: class %r is %.2f%% of cases (< %.2f%%)" % (
                    label, 100 * got, 100 * frac))
    if total.errors:
        rc = 2
        for e in total.errors[:5]:
            out_lines.append("HARNESS-ERROR %s: %s" % (check.ID, e))
    seen = set()
    for v in total.violations:
        path = save_replay(check.ID, v)
        if path in seen:
            continue
        seen.add(path)
        out_lines.append("VIOLATION property=%s replay=%s" % (check.ID, path))
        out_lines.append("  # %s" % str(v["message"])[:600])
        rc = 1
    samples = [c for _, c in sorted(total.samples, key=lambda t: t[0])]
    if len(samples) > 5:
        samples = samples[:2] + [samples[len(samples) // 2]] + samples[-2:]
    coverage = dict(
        evaluations=total.evaluations,
        distinct_nontrivial=len(total.nontrivial) + total.extra_nontrivial,
        rule=check.RULE,
        samples=samples,
        classes=dict(sorted(total.classes.items())),
        excluded_known=total.excluded_known,
        inconclusive=total.inconclusive,
        observations=total.observations,
        units=total.units,
        known_findings_reproduced=[l for l in known_lines],
    )
    if total.units and total.exhaustive_units:
        coverage["exhaustive_units"] = total.exhaustive_units
    if getattr(check, "EXHAUSTIVE", None):
        ex = check.EXHAUSTIVE(tier) if callable(check.EXHAUSTIVE) else check.EXHAUSTIVE
        cut = [u["unit"] for u in total.units if u.get("cut_short")]
        if cut:
            coverage["enumerations_cut_short"] = cut
        if ex and total.exhaustive_units and not total.violations and not cut:
            coverage["exhaustive"] = True
            coverage["exhaustive_scope"] = ex
    evidence = dict(
        property_id=check.ID, tier=tier, seed=seed, level=check.LEVEL,
        coverage=coverage, assumptions=list(getattr(check, "ASSUMPTIONS", [])),
        wall_s=round(wall, 2), violations=len(seen),
        repo_src=REPO_SRC, technique=getattr(check, "TECHNIQUE", ""),
    )
    if not ns.unit and not os.environ.get("VERIF_NO_EVIDENCE"):
        os.makedirs(os.path.join(VERIF, "evidence"), exist_ok=True)
        write_json(os.path.join(VERIF, "evidence", "%s.json" % check.ID), evidence)
    for l in known_lines:
        print(l)
    for l in out_lines:
        print(l)
    print("%s %s seed=%d: %d cases, %d distinct non-trivial, %d excluded-known, %d inconclusive, %d violation(s), %.1fs" % (
        check.ID, tier, seed, total.evaluations, len(total.nontrivial) + total.extra_nontrivial,
        sum(total.excluded_known.values()), total.inconclusive, len(seen), wall))
    return rc


def _replay(check, path) -> int:
    try:
        blob = json.load(open(path))
        case = blob["case"]
        fn = with_logging(getattr(check, "replay", None) or check.run_case)
        res = fn(case)
    except Exception as exc:  # noqa
        print("HARNESS-ERROR %s replay: %s" % (check.ID, exc))
        traceback.print_exc()
        return 2
    if res.violation is not None:
        print("VIOLATION property=%s replay=%s" % (check.ID, path))
        print("  # %s" % res.violation)
        return 1
    print("%s replay %s: property holds on this case" % (check.ID, path))
    return 0
