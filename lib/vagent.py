"""vagent -- reference SNMP agent (v1 / v2c / v3-USM) for the verification
harness.  Written from RFC 1157, 3416, 3412, 3414 and 3584 on top of vber,
hashlib, hmac.  Shares no code with puresnmp or x690.

The agent is an awaitable with the signature of puresnmp's ``sender``
callable, so ``Client(..., sender=agent)`` talks to it directly.
"""
from __future__ import annotations

import bisect
import hashlib
import hmac as _hmac

import vber
from vber import (
    T_COUNTER, T_COUNTER64, T_GAUGE, T_TICKS, T_ENDOFMIBVIEW, T_NOSUCHINSTANCE, T_NOSUCHOBJECT,
    T_NULL, PDU_GET, PDU_GETBULK, PDU_GETNEXT, PDU_REPORT, PDU_RESPONSE,
    PDU_SET,
)

EOM = (T_ENDOFMIBVIEW, b"")
NSO = (T_NOSUCHOBJECT, b"")
NSI = (T_NOSUCHINSTANCE, b"")

USM_STATS = "1.3.6.1.6.3.15.1.1."
OID_UNSUPPORTED_LEVEL = (1, 3, 6, 1, 6, 3, 15, 1, 1, 1, 0)
OID_NOT_IN_WINDOW = (1, 3, 6, 1, 6, 3, 15, 1, 1, 2, 0)
OID_UNKNOWN_USER = (1, 3, 6, 1, 6, 3, 15, 1, 1, 3, 0)
OID_UNKNOWN_ENGINE = (1, 3, 6, 1, 6, 3, 15, 1, 1, 4, 0)
OID_WRONG_DIGEST = (1, 3, 6, 1, 6, 3, 15, 1, 1, 5, 0)
OID_DECRYPT_ERROR = (1, 3, 6, 1, 6, 3, 15, 1, 1, 6, 0)


class AgentInternalError(Exception):
    """The reference agent met something it cannot handle (harness error)."""


class Silent(Exception):
    """RFC 3412 7.1 (3): no Report may be generated for a message whose reportableFlag is 0 -- the agent stays silent
    and the (real) transport would time out."""


class CapExceeded(Exception):
    """The client sent more requests than the cap allows (non-termination)."""


def T(s: str):
    return tuple(int(x) for x in s.strip(".").split("."))


def S(t) -> str:
    return ".".join(str(x) for x in t)


# --------------------------------------------------------------------------
# RFC 3414 A.2 key derivation and HMAC-96


def password_to_key(algo: str, password: bytes, engine_id: bytes) -> bytes:
    """RFC 3414 A.2.1 / A.2.2 (algo = 'md5' | 'sha1')."""
    if not password:
        raise ValueError("empty password")
    h = hashlib.new(algo)
    count = 0
    plen = len(password)
    # literal transcription of the RFC's loop in 64-octet blocks
    buf = bytearray(64)
    idx = 0
    while count < 1048576:
        for i in range(64):
            buf[i] = password[idx % plen]
            idx += 1
        h.update(bytes(buf))
        count += 64
    ku = h.digest()
    return hashlib.new(algo, ku + engine_id + ku).digest()


_KEY_CACHE = {}


def password_to_key_fast(algo: str, password: bytes, engine_id: bytes) -> bytes:
    """Same function, computed with one big buffer (validated against the
    literal transcription in selftest)."""
    k = (algo, password, engine_id)
    r = _KEY_CACHE.get(k)
    if r is None:
        ku_key = (algo, password)
        ku = _KEY_CACHE.get(ku_key)
        if ku is None:
            n = 1048576
            reps = n // len(password) + 1
            ku = hashlib.new(algo, (password * reps)[:n]).digest()
            _KEY_CACHE[ku_key] = ku
        r = hashlib.new(algo, ku + engine_id + ku).digest()
        _KEY_CACHE[k] = r
    return r


def hmac96(algo: str, key: bytes, message: bytes) -> bytes:
    return _hmac.new(key, message, algo).digest()[:12]


def keystream_xor(key: bytes, salt: bytes, data: bytes) -> bytes:
    """The agent's own implementation of the harness privacy transform
    'verifstream': XOR with SHA-256(key || salt || counter32) blocks."""
    out = bytearray(len(data))
    block = b""
    ctr = 0
    for i in range(len(data)):
        j = i % 32
        if j == 0:
            block = hashlib.sha256(key + salt + ctr.to_bytes(4, "big")).digest()
            ctr += 1
        out[i] = data[i] ^ block[j]
    return bytes(out)


def block_encrypt(key: bytes, salt: bytes, data: bytes) -> bytes:
    """'verifblock': length-prefixed, zero padded to 16-octet blocks, then
    the stream transform.  Ciphertext is longer than the plaintext."""
    framed = len(data).to_bytes(4, "big") + data
    framed += b"\xA5" * ((-len(framed)) % 16)
    return keystream_xor(key, salt, framed)


def block_decrypt(key: bytes, salt: bytes, data: bytes) -> bytes:
    framed = keystream_xor(key, salt, data)
    n = int.from_bytes(framed[:4], "big")
    if n > len(framed) - 4:
        raise ValueError("bad frame")
    return framed[4:4 + n]


PRIV_IMPL = {
    "verifstream": (keystream_xor, keystream_xor),
    "verifblock": (block_encrypt, block_decrypt),
}


# --------------------------------------------------------------------------


class Clock:
    """Virtual clock shared by the agent (and, in C12, the client)."""

    def __init__(self, now: float = 1_000_000.0):
        self.now = float(now)

    def advance(self, dt: float) -> None:
        self.now += dt


class User:
    def __init__(self, name: bytes, algo=None, auth_pw=None, priv_pw=None,
                 priv="verifstream"):
        self.name = name
        self.algo = algo  # None | 'md5' | 'sha1'
        self.auth_pw = auth_pw
        self.priv_pw = priv_pw
        self.priv = priv if priv_pw else None

    @property
    def level(self) -> int:
        return (1 if self.algo else 0) | (2 if self.priv_pw else 0)


class Agent:
    """Multi-version reference agent.

    db: dict {oid tuple: (value tag, content bytes)}
    """

    def __init__(self, db=None, community=b"public", engine_id=b"\x80\x00\x1f\x88\x80verif-agent",
                 users=(), boots=3, clock=None, boot_at=None, request_cap=None,
                 bulk_script=None, versions=(0, 1, 3), early_stop=True):
        self.db = dict(db or {})
        self.keys = sorted(self.db)
        self.community = community
        self.engine_id = engine_id
        self.users = {u.name: u for u in users}
        self.boots = boots
        self.clock = clock or Clock()
        self.boot_at = self.clock.now - 1000 if boot_at is None else boot_at
        self.request_cap = request_cap
        self.bulk_script = list(bulk_script or [])
        self.bulk_fired = []  # policies that actually changed a response
        self.versions = versions
        self.early_stop = early_stop
        self.log = []  # parsed requests (dicts), discovery probes included
        self.stats = dict(unknownEngine=0, notInWindow=0, wrongDigest=0,
                          unknownUser=0, unsupportedLevel=0, decryptError=0)
        self.respond_hook = None   # f(agent, req) -> bytes | None, before normal processing of an accepted request
        self.mangle = None         # f(agent, req, response_bytes) -> bytes
        self.salt_counter = 0
        self.salt_mode = "default"   # shape of msgPrivacyParameters in encrypted responses (any octet string is legal)
        self.honor_reportable = True
        self.trace = []  # free-form flags used as known-finding triggers
        self.counter_base = 0      # the usmStats counters did not start at zero (Counter32: they wrap at 2^32)
        self.volatile = False      # counters, gauges and time ticks move on with every read (as on a live device)
        self.reads = 0

    # -- database -----------------------------------------------------
    def engine_time(self) -> int:
        return int(self.clock.now - self.boot_at)

    def reboot(self) -> None:
        self.boots += 1
        self.boot_at = self.clock.now

    def read(self, oid):
        tag, content = self.db[tuple(oid)]
        if self.volatile and tag in (T_COUNTER, T_GAUGE, T_TICKS, T_COUNTER64):
            self.reads += 1
            bits = 64 if tag == T_COUNTER64 else 32
            v = (int.from_bytes(content, "big") + self.reads) % (1 << bits)
            n = max(1, (v.bit_length() + 8) // 8)
            return tag, v.to_bytes(n, "big")
        return tag, content

    def successor(self, oid):
        i = bisect.bisect_right(self.keys, tuple(oid))
        return self.keys[i] if i < len(self.keys) else None

    def set_value(self, oid, tag, content):
        self.db[tuple(oid)] = (tag, bytes(content))
        self.keys = sorted(self.db)

    def _is_object_prefix(self, oid) -> bool:
        # noSuchInstance if some instance lives below the parent object
        # (oid minus last arc), else noSuchObject.  Either is conformant for
        # our purposes; the distinction only exercises both markers.
        parent = tuple(oid[:-1])
        i = bisect.bisect_left(self.keys, parent)
        return i < len(self.keys) and self.keys[i][:len(parent)] == parent

    # -- PDU semantics --------------------------------------------------
    def answer(self, version: int, pdu: dict):
        """-> (error_status, error_index, [(oid, tag, content)])"""
        tag = pdu["tag"]
        req = pdu["vbs"]
        out = []
        if tag == PDU_GET:
            for i, (o, _, _) in enumerate(req):
                if o in self.db:
                    out.append((o,) + self.read(o))
                elif version == 0:
                    return 2, i + 1, [(o, T_NULL, b"") for o, _, _ in req]
                else:
                    out.append((o,) + (NSI if self._is_object_prefix(o) else NSO))
            return 0, 0, out
        if tag == PDU_GETNEXT:
            for i, (o, _, _) in enumerate(req):
                n = self.successor(o)
                if n is not None:
                    out.append((n,) + self.read(n))
                elif version == 0:
                    return 2, i + 1, [(o, T_NULL, b"") for o, _, _ in req]
                else:
                    out.append((o,) + EOM)
            return 0, 0, out
        if tag == PDU_SET:
            for o, t, c in req:
                self.db[o] = (t, bytes(c))
            self.keys = sorted(self.db)
            return 0, 0, [(o, t, bytes(c)) for o, t, c in req]
        if tag == PDU_GETBULK:
            if version == 0:
                raise AgentInternalError("GETBULK under SNMPv1")
            n = max(0, min(pdu["f1"], len(req)))
            m = max(0, pdu["f2"])
            for o, _, _ in req[:n]:
                s = self.successor(o)
                out.append((s,) + self.read(s) if s is not None else (o,) + EOM)
            cur = [o for o, _, _ in req[n:]]
            r = len(cur)
            rows = []
            if r:
                # (a conformant agent may send fewer repetitions than asked for -- its message size is finite: this one never
                # sends more than 300 rows, however large max-repetitions is)
                for _ in range(min(m, 300)):
                    row = []
                    alleom = True
                    for i, o in enumerate(cur):
                        s = self.successor(o)
                        if s is not None:
                            row.append((s,) + self.read(s))
                            cur[i] = s
                            alleom = False
                        else:
                            row.append((o,) + EOM)
                    rows.append(row)
                    if alleom and self.early_stop:
                        break
            flat = [vb for row in rows for vb in row]
            flat = self._apply_bulk_policy(flat, r)
            return 0, 0, out + flat
        raise AgentInternalError("unsupported PDU 0x%02x" % tag)

    def _apply_bulk_policy(self, flat, r):
        """Conformant truncation (RFC 3416 4.2.3): any suffix of the
        repeater bindings may be removed."""
        if not self.bulk_script or not flat:
            return flat
        pol = self.bulk_script.pop(0)
        kind = pol[0]
        total = len(flat)
        if kind == "full":
            return flat
        if kind == "rows":          # keep k >= 1 complete rows
            k = max(1, pol[1])
            keep = min(total, k * r)
        elif kind == "cut":         # keep k >= 1 bindings
            keep = min(total, max(1, pol[1]))
        elif kind == "frac":        # keep a fraction (per mille) of bindings
            keep = max(1, min(total, (total * pol[1]) // 1000))
        else:
            raise AgentInternalError("unknown bulk policy %r" % (pol,))
        if keep < total:
            self.bulk_fired.append((kind, keep, total, r))
            if keep < r:
                self.trace.append("subrow_truncation")
            elif keep % r:
                self.trace.append("midrow_truncation")
            else:
                self.trace.append("row_truncation")
        return flat[:keep]

    # -- encoders ---------------------------------------------------------
    def encode_pdu(self, tag, rid, es, ei, vbs) -> bytes:
        return vber.enc_pdu(tag, rid, es, ei, vbs)

    def community_response(self, version, rid, es, ei, vbs, community=None) -> bytes:
        return vber.enc_community_message(
            version,
            self.community if community is None else community,
            self.encode_pdu(PDU_RESPONSE, rid, es, ei, vbs),
        )

    def auth_key(self, user: User, engine_id=None) -> bytes:
        return password_to_key_fast(
            user.algo, user.auth_pw, self.engine_id if engine_id is None else engine_id
        )

    def priv_key(self, user: User, engine_id=None) -> bytes:
        return password_to_key_fast(
            user.algo, user.priv_pw, self.engine_id if engine_id is None else engine_id
        )

    def build_v3(self, msg_id, flags, user_name, body, *, auth_key=None,
                 algo=None, engine_id=None, boots=None, time=None, salt=b"",
                 digest=None, max_size=65507) -> bytes:
        """body: bytes of msgData as they go on the wire (scoped PDU SEQUENCE
        TLV, or OCTET STRING TLV with ciphertext).  If auth_key is given the
        message is signed (digest computed over the final bytes with the 12
        digest octets zero); an explicit ``digest`` overrides."""
        engine_id = self.engine_id if engine_id is None else engine_id
        boots = self.boots if boots is None else boots
        time = self.engine_time() if time is None else time

        def build(d):
            sp = vber.enc_usm_params(engine_id, boots, time, user_name, d, salt)
            return vber.enc_v3_message(msg_id, max_size, flags, 3, sp, body)

        if digest is not None:
            return build(digest)
        if auth_key is None:
            return build(b"")
        zeroed = build(b"\x00" * 12)
        return build(hmac96(algo, auth_key, zeroed))

    def report(self, msg_id, rid, oid, counter, flags=0, user=None, req_flags=4) -> bytes:
        if not req_flags & 4 and self.honor_reportable:
            self.trace.append("report_suppressed_unreportable")
            raise Silent("request with reportableFlag 0 cannot be answered with a Report (%s)" % S(oid))
        pdu = self.encode_pdu(
            PDU_REPORT, rid, 0, 0,
            [(oid, T_COUNTER, vber.int_content((counter + self.counter_base) % 2 ** 32))],
        )
        body = vber.enc_scoped_pdu(self.engine_id, b"", pdu)
        if flags & 1 and user is not None:
            return self.build_v3(msg_id, flags, user.name, body,
                                 auth_key=self.auth_key(user), algo=user.algo)
        return self.build_v3(msg_id, 0, b"" if user is None else user.name, body)

    # -- the sender seam ------------------------------------------------------
    async def __call__(self, endpoint, data, timeout=None, retries=None, loop=None):
        try:
            return self.handle(data, timeout=timeout, retries=retries)
        except Silent as exc:
            # what puresnmp's own UDP sender raises when nothing comes back (the only puresnmp name used in this module)
            from puresnmp.exc import Timeout

            raise Timeout("the agent does not answer: %s" % exc)

    def handle_or_timeout(self, data: bytes, timeout=None, retries=None) -> bytes:
        """handle(), but a silent agent surfaces as the transport's Timeout (for senders that call the agent directly)"""
        try:
            return self.handle(data, timeout=timeout, retries=retries)
        except Silent as exc:
            from puresnmp.exc import Timeout

            raise Timeout("the agent does not answer: %s" % exc)

    def handle(self, data: bytes, timeout=None, retries=None) -> bytes:
        if self.request_cap is not None and len(self.log) >= self.request_cap:
            raise CapExceeded("more than %d requests" % self.request_cap)
        try:
            msg = vber.parse_message(bytes(data))
        except vber.BerError as exc:
            self.log.append(dict(raw=bytes(data), malformed=str(exc),
                                 timeout=timeout, retries=retries))
            raise AgentInternalError("client sent malformed BER: %s" % exc)
        req = dict(msg)
        req.update(raw=bytes(data), timeout=timeout, retries=retries,
                   engine_time_at=self.engine_time(), boots_at=self.boots)
        self.log.append(req)
        if msg["version"] not in self.versions:
            raise AgentInternalError("version %r not served" % msg["version"])
        if msg["version"] in (0, 1):
            return self._handle_community(req)
        return self._handle_v3(req)

    def _finish(self, req, resp: bytes) -> bytes:
        req["response"] = resp
        if self.mangle is not None:
            resp = self.mangle(self, req, resp)
            req["delivered"] = resp
        return resp

    def _handle_community(self, req) -> bytes:
        if req["community"] != self.community:
            # RFC 1157 4.1: drop.  The harness never generates this case for
            # a conformant exchange.
            raise AgentInternalError("wrong community %r" % req["community"])
        pdu = req["pdu"]
        if self.respond_hook is not None:
            r = self.respond_hook(self, req)
            if r is not None:
                return self._finish(req, r)
        es, ei, vbs = self.answer(req["version"], pdu)
        req["answer"] = (es, ei, vbs)
        return self._finish(
            req, self.community_response(req["version"], pdu["rid"], es, ei, vbs)
        )

    def _handle_v3(self, req) -> bytes:
        msg_id = req["msg_id"]
        flags = req["flags"]
        if req["sec_model"] != 3:
            raise AgentInternalError("security model %r" % req["sec_model"])
        rid = req["pdu"]["rid"] if "pdu" in req else 0
        # RFC 3414 3.2 (3): engine id
        if req["engine_id"] != self.engine_id:
            self.stats["unknownEngine"] += 1
            req["verdict"] = "unknownEngineID"
            req["discovery"] = (req["engine_id"] == b"" and req["user"] == b""
                                and flags & 3 == 0)
            return self._finish(req, self.report(
                msg_id, rid, OID_UNKNOWN_ENGINE, self.stats["unknownEngine"], req_flags=flags))
        user = self.users.get(req["user"])
        if user is None:
            self.stats["unknownUser"] += 1
            req["verdict"] = "unknownUserName"
            return self._finish(req, self.report(
                msg_id, rid, OID_UNKNOWN_USER, self.stats["unknownUser"], req_flags=flags))
        if (flags & 3) != user.level:
            self.stats["unsupportedLevel"] += 1
            req["verdict"] = "unsupportedSecLevel"
            return self._finish(req, self.report(
                msg_id, rid, OID_UNSUPPORTED_LEVEL, self.stats["unsupportedLevel"], req_flags=flags))
        if flags & 1:
            ok = False
            if len(req["digest"]) == 12:
                s, e = vber.digest_offset(req["raw"])
                zeroed = req["raw"][:s] + b"\x00" * 12 + req["raw"][e:]
                ok = _hmac.compare_digest(
                    hmac96(user.algo, self.auth_key(user), zeroed), req["digest"])
            if not ok:
                self.stats["wrongDigest"] += 1
                req["verdict"] = "wrongDigest"
                return self._finish(req, self.report(
                    msg_id, rid, OID_WRONG_DIGEST, self.stats["wrongDigest"], req_flags=flags))
            if (req["boots"] != self.boots
                    or abs(req["time"] - self.engine_time()) > 150):
                self.stats["notInWindow"] += 1
                req["verdict"] = "notInTimeWindow"
                return self._finish(req, self.report(
                    msg_id, rid, OID_NOT_IN_WINDOW, self.stats["notInWindow"],
                    flags=1, user=user, req_flags=flags))
        if flags & 2:
            if "cipher" not in req:
                self.stats["decryptError"] += 1
                req["verdict"] = "decryptionError"
                return self._finish(req, self.report(
                    msg_id, rid, OID_DECRYPT_ERROR, self.stats["decryptError"], req_flags=flags))
            enc, dec = PRIV_IMPL[user.priv]
            try:
                plain = dec(self.priv_key(user), req["salt"], req["cipher"])
                scoped = vber.parse_scoped(plain, allow_trailing=True)
            except (vber.BerError, ValueError) as exc:
                self.stats["decryptError"] += 1
                req["verdict"] = "decryptionError"
                req["decrypt_exc"] = str(exc)
                return self._finish(req, self.report(
                    msg_id, rid, OID_DECRYPT_ERROR, self.stats["decryptError"], req_flags=flags))
            req["plain_scoped"] = plain
            req.update(scoped)
        elif "pdu" not in req:
            raise AgentInternalError("plaintext expected")
        req["verdict"] = "accepted"
        pdu = req["pdu"]
        if self.respond_hook is not None:
            r = self.respond_hook(self, req)
            if r is not None:
                return self._finish(req, r)
        es, ei, vbs = self.answer(3, pdu)
        req["answer"] = (es, ei, vbs)
        return self._finish(req, self.v3_response(req, user, es, ei, vbs))

    def v3_response(self, req, user, es, ei, vbs, pdu_tag=PDU_RESPONSE,
                    rid=None, msg_id=None) -> bytes:
        """An authentic response at the security level of the request."""
        pdu = self.encode_pdu(pdu_tag, req["pdu"]["rid"] if rid is None else rid,
                              es, ei, vbs)
        return self.v3_wrap(req, user, pdu, msg_id=msg_id)

    def v3_wrap(self, req, user, pdu_bytes, msg_id=None) -> bytes:
        flags = req["flags"] & 3
        scoped = vber.enc_scoped_pdu(req["ctx_engine"], req["ctx_name"], pdu_bytes)
        salt = b""
        body = scoped
        if flags & 2:
            self.salt_counter += 1
            salt = b"AG" + self.boots.to_bytes(2, "big") + self.salt_counter.to_bytes(4, "big")
            salt = {"default": salt, "counter16": self.salt_counter.to_bytes(16, "big"), "zeros12": b"\x00" * 12,
                    "zeros8": b"\x00" * 8, "empty": b"", "long40": (salt * 5)[:40], "ff12": b"\xff" * 12}[self.salt_mode]
            enc, dec = PRIV_IMPL[user.priv]
            body = vber.enc_octets(enc(self.priv_key(user), salt, scoped))
        req["response_scoped"] = scoped
        return self.build_v3(
            req["msg_id"] if msg_id is None else msg_id, flags, user.name, body,
            auth_key=self.auth_key(user) if flags & 1 else None,
            algo=user.algo, salt=salt,
        )


def selftest() -> None:
    # RFC 3414 A.3.1 / A.3.2
    eng = bytes.fromhex("000000000000000000000002")
    assert password_to_key("md5", b"maplesyrup", eng).hex() == "526f5eed9fcce26f8964c2930787d82b"
    assert password_to_key("sha1", b"maplesyrup", eng).hex() == "6695febc9288e36282235fc7151f128497b38f3f"
    for pw in (b"maplesyrup", b"x", b"abc" * 50, bytes(range(1, 64))):
        for algo in ("md5", "sha1"):
            assert password_to_key(algo, pw, eng) == password_to_key_fast(algo, pw, eng)
    k = b"k" * 16
    for n in (0, 1, 31, 32, 33, 100):
        d = bytes(range(n % 256)) * 1 if n < 256 else b""
        d = bytes((i * 7) % 256 for i in range(n))
        assert keystream_xor(k, b"s", keystream_xor(k, b"s", d)) == d
        assert block_decrypt(k, b"s", block_encrypt(k, b"s", d)) == d
        assert len(block_encrypt(k, b"s", d)) > len(d)
    a = Agent({(1, 3, 6, 1, 2, 1, 1, 1, 0): (4, b"x"), (1, 3, 6, 1, 2, 1, 1, 2, 0): (2, b"\x01")})
    assert a.successor((1, 3)) == (1, 3, 6, 1, 2, 1, 1, 1, 0)
    assert a.successor((1, 3, 6, 1, 2, 1, 1, 2, 0)) is None
    es, ei, vbs = a.answer(1, dict(tag=PDU_GETBULK, rid=1, f1=0, f2=3,
                                   vbs=[((1, 3), 5, b"")]))
    assert [v[0][-2] for v in vbs] == [1, 2, 2] and vbs[-1][1] == T_ENDOFMIBVIEW
