"""Hypothesis strategies shared by the checks.  All strategies build JSON-able
cases by construction (no filter/assume), so that the shrunk failing case, the
replay file and the evidence samples are the same object."""
from __future__ import annotations

from hypothesis import strategies as st

import vber

SUBID_BOUNDARY = [0, 1, 2, 39, 127, 128, 255, 256, 16383, 16384, 2 ** 21 - 1,
                  2 ** 21, 2 ** 28 - 1, 2 ** 28, 2 ** 31, 2 ** 32 - 1]
SMALL_SUBID = st.integers(0, 12)
SUBID = st.one_of(SMALL_SUBID, SMALL_SUBID, st.sampled_from(SUBID_BOUNDARY),
                  st.integers(0, 2 ** 32 - 1))

PREFIXES = [
    (1, 3), (1, 3, 6, 1, 2, 1), (1, 3, 6, 1, 2, 1, 2, 2), (1, 3, 6, 1, 4, 1, 9),
    (1, 3, 6, 1, 4, 1, 2 ** 32 - 1, 7), (0, 1), (0, 39, 5), (2, 5), (2, 39),
    (1, 0, 8802), (1, 3, 6, 1, 6, 3, 15, 1), (1, 39, 128, 16384),
]


def prefix():
    return st.sampled_from(PREFIXES)


# -- values ---------------------------------------------------------------

INT_BOUNDARY = sorted({s * (2 ** k) + d for k in (0, 7, 8, 15, 16, 23, 24, 31)
                       for d in (-1, 0, 1) for s in (1, -1)
                       if -2 ** 31 <= s * (2 ** k) + d <= 2 ** 31 - 1})
U32_BOUNDARY = sorted({v for k in (0, 7, 8, 15, 16, 23, 24, 31, 32)
                       for d in (-1, 0, 1) for v in [2 ** k + d] if 0 <= v <= 2 ** 32 - 1})
U64_BOUNDARY = sorted({v for k in (0, 7, 8, 31, 32, 33, 39, 40, 47, 48, 55, 56, 63, 64)
                       for d in (-1, 0, 1) for v in [2 ** k + d] if 0 <= v <= 2 ** 64 - 1})


def int32():
    return st.one_of(st.sampled_from(INT_BOUNDARY), st.integers(-2 ** 31, 2 ** 31 - 1))


def uint32():
    return st.one_of(st.sampled_from(U32_BOUNDARY), st.integers(0, 2 ** 32 - 1))


def uint64():
    return st.one_of(st.sampled_from(U64_BOUNDARY), st.integers(0, 2 ** 64 - 1))


def octets(max_size=24):
    return st.binary(min_size=0, max_size=max_size)


def oid_value():
    return st.builds(
        lambda p, tail: p + tuple(tail),
        st.sampled_from(PREFIXES),
        st.lists(SUBID, min_size=0, max_size=6),
    )


@st.composite
def value(draw, tags=None, max_octets=24, allow_null=True):
    """-> [tag, hex content] of a well-formed SNMP value with canonical
    content (what a conformant agent sends)."""
    if tags is None:
        tags = [vber.T_INT, vber.T_OCTETS, vber.T_OID, vber.T_IPADDR,
                vber.T_COUNTER, vber.T_GAUGE, vber.T_TICKS, vber.T_OPAQUE,
                vber.T_COUNTER64] + ([vber.T_NULL] if allow_null else [])
    tag = draw(st.sampled_from(tags))
    if tag == vber.T_INT:
        c = vber.int_content(draw(int32()))
    elif tag in (vber.T_COUNTER, vber.T_GAUGE, vber.T_TICKS):
        c = vber.int_content(draw(uint32()))
    elif tag == vber.T_COUNTER64:
        c = vber.int_content(draw(uint64()))
    elif tag in (vber.T_OCTETS, vber.T_OPAQUE):
        c = draw(octets(max_octets))
    elif tag == vber.T_OID:
        c = vber.oid_content(draw(oid_value()))
    elif tag == vber.T_IPADDR:
        c = draw(st.one_of(st.sampled_from([b"\0\0\0\0", b"\xff\xff\xff\xff",
                                            b"\x7f\0\0\x01", b"\xc0\0\x02\x01"]),
                           st.binary(min_size=4, max_size=4)))
    elif tag == vber.T_NULL:
        c = b""
    else:
        raise ValueError(tag)
    return [tag, c.hex()]


V1_TAGS = [vber.T_INT, vber.T_OCTETS, vber.T_OID, vber.T_IPADDR, vber.T_COUNTER,
           vber.T_GAUGE, vber.T_TICKS, vber.T_OPAQUE]


# -- walk worlds ------------------------------------------------------------

SUFFIX_ARC = st.one_of(st.integers(0, 6), st.integers(0, 6),
                       st.sampled_from([0, 1, 2, 127, 128, 255, 16383, 16384, 2 ** 32 - 1]))


@st.composite
def walk_world(draw, max_roots=4, max_instances=12, value_tags=None,
               min_roots=1):
    """A database with 2..7 pairwise disjoint slots (sibling / cousin subtrees
    with drawn gaps and depths) of which 1..max_roots are walk roots; the rest
    are neighbours before / between / after.  Built by construction.

    -> dict(db=[[oid, tag, hex]...], roots=[oid...] in listing order,
            slots=[...], flags=[...])"""
    pre = draw(prefix())
    nslots = draw(st.integers(2, 7))
    # heads: strictly increasing first arcs below the prefix, drawn gaps
    gaps = draw(st.lists(st.sampled_from([1, 1, 1, 2, 3, 100, 2 ** 20]),
                         min_size=nslots, max_size=nslots))
    start = draw(st.sampled_from([0, 1, 1, 5, 126, 127, 16383]))
    heads = []
    cur = start
    for g in gaps:
        heads.append(cur)
        cur += g
    slots = []
    for h in heads:
        depth = draw(st.sampled_from([1, 1, 1, 2, 3]))
        if depth == 1:
            slots.append(pre + (h,))
        else:
            # cousin subtrees: one or two children below the same head
            arcs = draw(st.lists(st.integers(0, 9), min_size=depth - 1,
                                 max_size=depth - 1))
            slots.append(pre + (h,) + tuple(arcs))
            if draw(st.booleans()) and len(slots) < 7:
                arcs2 = list(arcs)
                arcs2[-1] = arcs2[-1] + draw(st.sampled_from([1, 1, 2, 50]))
                slots.append(pre + (h,) + tuple(arcs2))
    slots = sorted(set(slots))
    nroots = draw(st.integers(min(min_roots, len(slots)), min(max_roots, len(slots))))
    root_idx = sorted(draw(st.permutations(range(len(slots))))[:nroots])
    flags = []
    end_of_view = draw(st.sampled_from([False, False, True]))
    root_beyond = draw(st.sampled_from([False, False, False, True]))
    db = {}
    sizes = {}
    for i, slot in enumerate(slots):
        n = draw(st.sampled_from([0, 1, 2, 3, 4, 5, 6, 8, 10, max_instances]))
        if end_of_view and i > root_idx[-1]:
            n = 0
        if root_beyond and i >= root_idx[-1]:
            n = 0
        sufs = draw(st.lists(st.lists(SUFFIX_ARC, min_size=1, max_size=3),
                             min_size=n, max_size=n))
        inst = sorted({slot + tuple(s) for s in sufs})
        sizes[i] = len(inst)
        for o in inst:
            db[o] = draw(value(tags=value_tags))
        if i in root_idx and draw(st.sampled_from([False, False, False, True])):
            if not (root_beyond and i >= root_idx[-1]) :
                db[slot] = draw(value(tags=value_tags))
                flags.append("instance_at_root")
    # far-apart extras under other top-level arcs (neighbours well before/after)
    if draw(st.sampled_from([False, False, True])) and not end_of_view and not root_beyond:
        for extra in draw(st.lists(st.sampled_from([(0, 0, 1), (0, 1, 0), (2, 39, 9, 1), (2, 5, 4, 3), (1, 39, 1)]),
                                   max_size=2, unique=True)):
            if not any(extra[:len(s)] == s for s in slots):
                db.setdefault(extra, draw(value(tags=value_tags)))
    roots = [slots[i] for i in root_idx]
    order = draw(st.permutations(range(len(roots))))
    listed = [roots[i] for i in order]
    if end_of_view:
        flags.append("ends_at_end_of_view")
    if root_beyond:
        flags.append("root_beyond_all")
    if any(sizes[i] == 0 for i in root_idx):
        flags.append("empty_subtree")
    if list(order) != sorted(order):
        flags.append("unsorted_listing")
    if len(roots) >= 2:
        flags.append("multi_root")
        if len({sizes[i] for i in root_idx}) > 1:
            flags.append("different_sizes")
    adjacent = any(b == a + 1 for a, b in zip(root_idx, root_idx[1:]))
    if adjacent:
        flags.append("adjacent_roots")
    return dict(
        db=[[list(o), v[0], v[1]] for o, v in sorted(db.items())],
        roots=[list(r) for r in listed],
        flags=sorted(set(flags)),
    )


def proto(v3_weight=1, v1=False):
    import vworld

    opts = [vworld.V2C_PROTO] * 6 + list(vworld.V3_PROTOS) * v3_weight
    if v1:
        opts += [vworld.V1_PROTO] * 2
    return st.sampled_from(opts)
