"""vber -- an independent BER codec for SNMP messages.

Written from X.690 / RFC 1157 / RFC 3416 / RFC 3412 / RFC 3414 with nothing
but the Python standard library underneath.  It shares no code with x690 or
puresnmp and is the reference every wire-level oracle of the checks uses.

Encoder: the length form of every TLV is selectable (short, minimal long,
long padded to 1..4 length octets).
Decoder: strict.  Definite lengths only, no over-run, no trailing bytes,
base-128 sub-identifiers, first-arc split 0/1/2.
"""
from __future__ import annotations

import ipaddress
from datetime import timedelta

# --------------------------------------------------------------------------
# tags
T_INT = 0x02
T_OCTETS = 0x04
T_NULL = 0x05
T_OID = 0x06
T_SEQ = 0x30
T_IPADDR = 0x40
T_COUNTER = 0x41
T_GAUGE = 0x42
T_TICKS = 0x43
T_OPAQUE = 0x44
T_NSAP = 0x45
T_COUNTER64 = 0x46
T_NOSUCHOBJECT = 0x80
T_NOSUCHINSTANCE = 0x81
T_ENDOFMIBVIEW = 0x82

PDU_GET = 0xA0
PDU_GETNEXT = 0xA1
PDU_RESPONSE = 0xA2
PDU_SET = 0xA3
PDU_TRAPV1 = 0xA4
PDU_GETBULK = 0xA5
PDU_INFORM = 0xA6
PDU_TRAP = 0xA7
PDU_REPORT = 0xA8

UNSIGNED_TAGS = (T_COUNTER, T_GAUGE, T_TICKS, T_COUNTER64)

# names under which puresnmp / x690 expose the value types; the keys are
# tags, the mapping itself is RFC 2578 / 3416 knowledge, not derived from
# the code under test.
TYPE_NAMES = {
    T_INT: "Integer",
    T_OCTETS: "OctetString",
    T_NULL: "Null",
    T_OID: "ObjectIdentifier",
    T_IPADDR: "IpAddress",
    T_COUNTER: "Counter",
    T_GAUGE: "Gauge",
    T_TICKS: "TimeTicks",
    T_OPAQUE: "Opaque",
    T_COUNTER64: "Counter64",
    T_NOSUCHOBJECT: "NoSuchObject",
    T_NOSUCHINSTANCE: "NoSuchInstance",
    T_ENDOFMIBVIEW: "EndOfMibView",
}


class BerError(Exception):
    """Raised by the strict decoder for anything that is not valid
    definite-length BER."""


# --------------------------------------------------------------------------
# encoder


def enc_len(n: int, form=None) -> bytes:
    """Encode a length.  form None = minimal; 0 = short form (n < 128
    required); k in 1..4 = long form with exactly k length octets."""
    if form is None:
        if n < 128:
            return bytes([n])
        b = n.to_bytes((n.bit_length() + 7) // 8, "big")
        return bytes([0x80 | len(b)]) + b
    if form == 0:
        if n >= 128:
            raise ValueError("short form needs n < 128")
        return bytes([n])
    return bytes([0x80 | form]) + n.to_bytes(form, "big")


def tlv(tag: int, content: bytes, form=None) -> bytes:
    return bytes([tag]) + enc_len(len(content), form) + content


def int_content(v: int) -> bytes:
    """Minimal two's complement content octets."""
    n = max(1, (v.bit_length() + 8) // 8) if v >= 0 else max(
        1, ((v + 1).bit_length() + 8) // 8
    )
    return v.to_bytes(n, "big", signed=True)


def enc_int(v: int, tag: int = T_INT, form=None) -> bytes:
    return tlv(tag, int_content(v), form)


def enc_uint(v: int, tag: int, form=None) -> bytes:
    """Unsigned application integers use the INTEGER content rules: a leading
    zero octet when the top bit would otherwise be set."""
    if v < 0:
        raise ValueError("unsigned")
    return tlv(tag, int_content(v), form)


def oid_content(nodes) -> bytes:
    nodes = tuple(nodes)
    if len(nodes) < 2:
        raise ValueError("OID needs two arcs")
    if nodes[0] > 2 or (nodes[0] < 2 and nodes[1] >= 40):
        raise ValueError("bad first arcs")
    out = bytearray()
    for n in (nodes[0] * 40 + nodes[1],) + nodes[2:]:
        chunk = [n & 0x7F]
        n >>= 7
        while n:
            chunk.append((n & 0x7F) | 0x80)
            n >>= 7
        out.extend(reversed(chunk))
    return bytes(out)


def enc_oid(nodes, form=None) -> bytes:
    return tlv(T_OID, oid_content(nodes), form)


def enc_octets(b: bytes, tag: int = T_OCTETS, form=None) -> bytes:
    return tlv(tag, bytes(b), form)


def enc_null(tag: int = T_NULL, form=None) -> bytes:
    return tlv(tag, b"", form)


def enc_seq(items, tag: int = T_SEQ, form=None) -> bytes:
    return tlv(tag, b"".join(items), form)


def enc_varbind(oid, vtag, vcontent, form=None, vform=None, oform=None) -> bytes:
    return tlv(T_SEQ, enc_oid(oid, oform) + tlv(vtag, vcontent, vform), form)


def enc_pdu(tag, request_id, f1, f2, varbinds, form=None, vbl_form=None,
            vb_form=None, int_form=None, v_form=None, o_form=None) -> bytes:
    """varbinds: iterable of (oid tuple, value tag, value content)."""
    vbl = b"".join(
        enc_varbind(o, t, c, vb_form, v_form, o_form) for o, t, c in varbinds
    )
    return tlv(
        tag,
        enc_int(request_id, form=int_form)
        + enc_int(f1, form=int_form)
        + enc_int(f2, form=int_form)
        + tlv(T_SEQ, vbl, vbl_form),
        form,
    )


def enc_community_message(version, community, pdu_bytes, form=None,
                          c_form=None, int_form=None) -> bytes:
    return tlv(
        T_SEQ,
        enc_int(version, form=int_form)
        + tlv(T_OCTETS, community, c_form)
        + pdu_bytes,
        form,
    )


def enc_usm_params(engine_id, boots, time, user, digest, salt) -> bytes:
    return tlv(
        T_SEQ,
        tlv(T_OCTETS, engine_id)
        + enc_int(boots)
        + enc_int(time)
        + tlv(T_OCTETS, user)
        + tlv(T_OCTETS, digest)
        + tlv(T_OCTETS, salt),
    )


def enc_scoped_pdu(ctx_engine, ctx_name, pdu_bytes, form=None) -> bytes:
    return tlv(
        T_SEQ,
        tlv(T_OCTETS, ctx_engine) + tlv(T_OCTETS, ctx_name) + pdu_bytes,
        form,
    )


def enc_v3_message(msg_id, max_size, flags, sec_model, sec_params_bytes,
                   body_bytes, form=None, hdr_form=None, sp_form=None) -> bytes:
    """body_bytes is either a scoped PDU (SEQUENCE TLV) or an OCTET STRING
    TLV holding ciphertext; it is inserted as is."""
    hdr = tlv(
        T_SEQ,
        enc_int(msg_id)
        + enc_int(max_size)
        + tlv(T_OCTETS, bytes([flags]) if isinstance(flags, int) else flags)
        + enc_int(sec_model),
        hdr_form,
    )
    return tlv(
        T_SEQ,
        enc_int(3) + hdr + tlv(T_OCTETS, sec_params_bytes, sp_form) + body_bytes,
        form,
    )


# --------------------------------------------------------------------------
# strict decoder


def read_tlv(data: bytes, pos: int = 0):
    """-> (tag, content_start, content_end).  Raises BerError."""
    n = len(data)
    if pos + 2 > n:
        raise BerError("truncated header at %d" % pos)
    tag = data[pos]
    if tag & 0x1F == 0x1F:
        raise BerError("multi-byte tag at %d" % pos)
    l0 = data[pos + 1]
    p = pos + 2
    if l0 < 0x80:
        ln = l0
    elif l0 == 0x80:
        raise BerError("indefinite length at %d" % pos)
    elif l0 == 0xFF:
        raise BerError("reserved length octet at %d" % pos)
    else:
        k = l0 & 0x7F
        if p + k > n:
            raise BerError("truncated length at %d" % pos)
        ln = int.from_bytes(data[p:p + k], "big")
        p += k
    if p + ln > n:
        raise BerError("content over-runs buffer at %d" % pos)
    return tag, p, p + ln


def read_one(data: bytes):
    """Exactly one TLV, no trailing bytes -> (tag, content)."""
    tag, s, e = read_tlv(data, 0)
    if e != len(data):
        raise BerError("trailing bytes")
    return tag, data[s:e]


def read_all(content: bytes):
    """All TLVs of a constructed value's content -> [(tag, content)]."""
    out = []
    pos = 0
    while pos < len(content):
        tag, s, e = read_tlv(content, pos)
        out.append((tag, content[s:e]))
        pos = e
    return out


def tlv_spans(data: bytes, pos: int = 0, end=None, depth: int = 0, out=None):
    """Recursively locate every TLV header in a well-formed message.
    -> list of (tag_offset, first_length_offset, content_start, content_end,
    depth).  Constructed values (bit 0x20) are descended into; for OCTET
    STRINGs whose content parses as exactly one SEQUENCE the content is
    descended into as well (msgSecurityParameters)."""
    if out is None:
        out = []
    if end is None:
        end = len(data)
    while pos < end:
        tag, s, e = read_tlv(data[:end], pos)
        out.append((pos, pos + 1, s, e, depth))
        if tag & 0x20:
            tlv_spans(data, s, e, depth + 1, out)
        elif tag == T_OCTETS and e - s >= 2 and data[s] == T_SEQ:
            try:
                t2, s2, e2 = read_tlv(data[:e], s)
                if e2 == e:
                    tlv_spans(data, s, e, depth + 1, out)
            except BerError:
                pass
        pos = e
    return out


def dec_int(content: bytes, signed: bool = True) -> int:
    if not content:
        raise BerError("empty INTEGER")
    return int.from_bytes(content, "big", signed=signed)


def dec_oid(content: bytes):
    if not content:
        raise BerError("empty OID")
    subs = []
    v = 0
    started = False
    for b in content:
        if not started and b == 0x80:
            raise BerError("non-minimal sub-identifier")
        started = True
        v = (v << 7) | (b & 0x7F)
        if not b & 0x80:
            subs.append(v)
            v = 0
            started = False
    if started:
        raise BerError("truncated sub-identifier")
    f = subs[0]
    if f < 40:
        head = (0, f)
    elif f < 80:
        head = (1, f - 40)
    else:
        head = (2, f - 80)
    return head + tuple(subs[1:])


def typed_value(tag: int, content: bytes):
    """Independent reading of an SNMP value -> (type name, python value) in the
    vocabulary of puresnmp's raw API (type class name, ``.value``)."""
    name = TYPE_NAMES.get(tag)
    if name is None:
        raise BerError("unknown value tag 0x%02x" % tag)
    if tag == T_INT:
        return name, dec_int(content, True)
    if tag in UNSIGNED_TAGS:
        return name, dec_int(content, False)
    if tag in (T_OCTETS, T_OPAQUE):
        return name, bytes(content)
    if tag == T_OID:
        return name, dec_oid(content)
    if tag == T_IPADDR:
        if len(content) != 4:
            raise BerError("IpAddress needs 4 octets")
        return name, ipaddress.IPv4Address(bytes(content))
    if tag in (T_NULL, T_NOSUCHOBJECT, T_NOSUCHINSTANCE, T_ENDOFMIBVIEW):
        if content:
            raise BerError("non-empty NULL-like value")
        return name, None
    raise BerError("unhandled tag")


def pythonized(tag: int, content: bytes):
    """What the pythonic wrapper is documented to return for a value: str
    OIDs, int, bytes, timedelta, IPv4Address, None."""
    name, val = typed_value(tag, content)
    if tag == T_OID:
        return ".".join(str(n) for n in val)
    if tag == T_TICKS:
        return timedelta(milliseconds=10 * val)
    return val


def parse_pdu(tag: int, content: bytes) -> dict:
    items = read_all(content)
    if len(items) != 4:
        raise BerError("PDU needs 4 fields, got %d" % len(items))
    for i in range(3):
        if items[i][0] != T_INT:
            raise BerError("PDU field %d is not INTEGER" % i)
    if items[3][0] != T_SEQ:
        raise BerError("varbind list is not SEQUENCE")
    vbs = []
    for t, vb in read_all(items[3][1]):
        if t != T_SEQ:
            raise BerError("varbind is not SEQUENCE")
        parts = read_all(vb)
        if len(parts) != 2 or parts[0][0] != T_OID:
            raise BerError("malformed varbind")
        vbs.append((dec_oid(parts[0][1]), parts[1][0], parts[1][1]))
    return dict(
        tag=tag,
        rid=dec_int(items[0][1]),
        f1=dec_int(items[1][1]),
        f2=dec_int(items[2][1]),
        vbs=vbs,
    )


def parse_message(data: bytes) -> dict:
    """Parse any SNMP message (v1/v2c community based or v3).  For v3 the
    scoped PDU is parsed when it is plaintext; ciphertext is returned as
    ``cipher``."""
    tag, c = read_one(data)
    if tag != T_SEQ:
        raise BerError("message is not a SEQUENCE")
    items = read_all(c)
    if not items or items[0][0] != T_INT:
        raise BerError("no version")
    version = dec_int(items[0][1])
    if version in (0, 1):
        if len(items) != 3 or items[1][0] != T_OCTETS:
            raise BerError("bad community message")
        return dict(
            version=version,
            community=items[1][1],
            pdu=parse_pdu(items[2][0], items[2][1]),
        )
    if version != 3:
        raise BerError("unknown version %d" % version)
    if len(items) != 4 or items[1][0] != T_SEQ or items[2][0] != T_OCTETS:
        raise BerError("bad v3 message")
    hdr = read_all(items[1][1])
    if len(hdr) != 4 or [h[0] for h in hdr] != [T_INT, T_INT, T_OCTETS, T_INT]:
        raise BerError("bad v3 header")
    if len(hdr[2][1]) != 1:
        raise BerError("msgFlags must be one octet")
    sp_tag, sp = read_one(items[2][1])
    if sp_tag != T_SEQ:
        raise BerError("security parameters not a SEQUENCE")
    spi = read_all(sp)
    if len(spi) != 6 or [s[0] for s in spi] != [
        T_OCTETS, T_INT, T_INT, T_OCTETS, T_OCTETS, T_OCTETS
    ]:
        raise BerError("bad USM parameters")
    out = dict(
        version=3,
        msg_id=dec_int(hdr[0][1]),
        max_size=dec_int(hdr[1][1]),
        flags=hdr[2][1][0],
        sec_model=dec_int(hdr[3][1]),
        engine_id=spi[0][1],
        boots=dec_int(spi[1][1]),
        time=dec_int(spi[2][1]),
        user=spi[3][1],
        digest=spi[4][1],
        salt=spi[5][1],
        sec_params_raw=items[2][1],
        body_tag=items[3][0],
        body=items[3][1],
        lengths=dict(message=len(c)),
    )
    if items[3][0] == T_SEQ:
        out.update(parse_scoped_content(items[3][1]))
        out["lengths"]["scoped"] = len(items[3][1])
    elif items[3][0] == T_OCTETS:
        out["cipher"] = items[3][1]
        out["lengths"]["cipher"] = len(items[3][1])
    else:
        raise BerError("bad msgData")
    return out


def parse_scoped_content(content: bytes) -> dict:
    sp = read_all(content)
    if len(sp) != 3 or sp[0][0] != T_OCTETS or sp[1][0] != T_OCTETS:
        raise BerError("bad scoped PDU")
    return dict(
        ctx_engine=sp[0][1],
        ctx_name=sp[1][1],
        pdu=parse_pdu(sp[2][0], sp[2][1]),
        pdu_len=len(sp[2][1]),
    )


def parse_scoped(data: bytes, allow_trailing: bool = False) -> dict:
    tag, s, e = read_tlv(data, 0)
    if tag != T_SEQ:
        raise BerError("scoped PDU is not a SEQUENCE")
    if e != len(data) and not allow_trailing:
        raise BerError("trailing bytes after scoped PDU")
    return parse_scoped_content(data[s:e])


def digest_offset(data: bytes):
    """Offset of the 12 digest octets inside a v3 message (or None)."""
    tag, s, e = read_tlv(data, 0)
    pos = s
    for i in range(3):
        t, cs, ce = read_tlv(data, pos)
        if i < 2:
            pos = ce
    # pos -> msgSecurityParameters OCTET STRING; cs..ce is its content
    t, s2, e2 = read_tlv(data, cs)  # USM SEQUENCE
    p = s2
    for i in range(5):
        t, fs, fe = read_tlv(data, p)
        if i < 4:
            p = fe
    return fs, fe


def tree(data: bytes):
    """Content tree used by the re-encode law: nested (tag, bytes|children)
    with constructed values expanded; insensitive to length forms."""
    def walk(content):
        out = []
        for tag, c in read_all(content):
            if tag & 0x20:
                out.append((tag, walk(c)))
            else:
                out.append((tag, bytes(c)))
        return out
    return walk(data)


def norm_tree(data: bytes):
    """Like tree() but INTEGER-like contents are normalised to their numeric
    value (so non-minimal integer contents compare equal) and OIDs to their
    arcs."""
    def walk(content):
        out = []
        for tag, c in read_all(content):
            if tag & 0x20:
                out.append((tag, walk(c)))
            elif tag == T_INT:
                out.append((tag, dec_int(c, True)))
            elif tag in UNSIGNED_TAGS:
                out.append((tag, dec_int(c, False)))
            elif tag == T_OID:
                out.append((tag, dec_oid(c)))
            else:
                out.append((tag, bytes(c)))
        return out
    return walk(data)


# --------------------------------------------------------------------------
# self test (run at the start of every check; failure => harness error)


def selftest() -> None:
    # RFC 1157-style literal: GetRequest for 1.3.6.1.2.1.1.1.0, community
    # "public", request-id 1
    msg = bytes.fromhex(
        "302602010004067075626c6963a01902010102010002010030"
        "0e300c06082b060102010101000500"
    )
    m = parse_message(msg)
    assert m["version"] == 0 and m["community"] == b"public"
    assert m["pdu"] == dict(
        tag=PDU_GET, rid=1, f1=0, f2=0,
        vbs=[((1, 3, 6, 1, 2, 1, 1, 1, 0), T_NULL, b"")],
    ), m
    again = enc_community_message(
        0, b"public",
        enc_pdu(PDU_GET, 1, 0, 0, [((1, 3, 6, 1, 2, 1, 1, 1, 0), T_NULL, b"")]),
    )
    assert again == msg
    # integers
    for v, hx in [(0, "00"), (127, "7f"), (128, "0080"), (255, "00ff"),
                  (256, "0100"), (-1, "ff"), (-128, "80"), (-129, "ff7f"),
                  (2 ** 31 - 1, "7fffffff"), (-2 ** 31, "80000000"),
                  (2 ** 32 - 1, "00ffffffff"), (2 ** 64 - 1, "00" + "ff" * 8)]:
        assert int_content(v).hex() == hx, (v, int_content(v).hex())
        assert dec_int(int_content(v)) == v
    # OIDs (X.690 8.19 example: 2.100.3 -> 81 34 03)
    assert oid_content((2, 100, 3)).hex() == "813403"
    assert dec_oid(bytes.fromhex("813403")) == (2, 100, 3)
    assert oid_content((1, 3, 6, 1, 4, 1, 2 ** 32 - 1)).hex() == "2b060104018fffffff7f"
    assert dec_oid(bytes.fromhex("2b060104018fffffff7f")) == (1, 3, 6, 1, 4, 1, 2 ** 32 - 1)
    # lengths
    assert enc_len(127) == b"\x7f" and enc_len(128) == b"\x81\x80"
    assert enc_len(256) == b"\x82\x01\x00" and enc_len(5, 3) == b"\x83\x00\x00\x05"
    for n in (0, 1, 127, 128, 255, 256, 65535, 65536):
        for form in (None, 1, 2, 3, 4):
            if form and n >= 256 ** form:
                continue
            b = tlv(4, b"x" * n, form)
            assert read_one(b) == (4, b"x" * n)
    for bad in (b"\x04", b"\x04\x80", b"\x04\x02a", b"\x04\x81", b"\x1f\x01a",
                b"\x04\x01ab"):
        try:
            read_one(bad)
        except BerError:
            pass
        else:
            raise AssertionError("accepted %r" % bad)
    # v3 round trip
    sp = enc_usm_params(b"\x80\x00\x1f\x88\x01", 3, 1000, b"user", b"\0" * 12, b"salt")
    spdu = enc_scoped_pdu(b"eng", b"ctx", enc_pdu(PDU_GET, 7, 0, 0, []))
    m3 = parse_message(enc_v3_message(99, 65507, 5, 3, sp, spdu))
    assert (m3["msg_id"], m3["flags"], m3["user"], m3["boots"], m3["time"],
            m3["ctx_name"], m3["pdu"]["rid"]) == (99, 5, b"user", 3, 1000, b"ctx", 7)
    d = enc_v3_message(99, 65507, 5, 3, sp, spdu)
    s, e = digest_offset(d)
    assert d[s:e] == b"\0" * 12
