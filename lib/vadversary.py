"""vadversary -- non-conformant / hostile counterparts built on vber and
vagent: function agents (C03), scripted status agents (C08), perturbers
(C07) and the man in the middle (C09)."""
from __future__ import annotations

import vagent
import vber


class FunctionAgent:
    """Answers GETNEXT / GETBULK from a total function
    f: (requested OID, repetition index) -> OID | endOfMibView over a finite
    universe.  v2c only.  ``table[q][rep]`` is an index into ``universe`` or
    -1 for endOfMibView; ``requestable`` = roots + universe."""

    def __init__(self, roots, universe, table, cap, community=b"public",
                 stop_all_eom=True, empty_at=(), error_at=None, values=None):
        self.roots = [tuple(r) for r in roots]
        self.universe = [tuple(u) for u in universe]
        self.requestable = self.roots + self.universe
        self.table = table
        self.cap = cap
        self.community = community
        self.stop_all_eom = stop_all_eom
        self.empty_at = set(empty_at)   # request numbers answered with an empty binding list
        self.empty_sent = 0
        self.error_at = dict(error_at or {})   # request number -> (error-status, error-index)
        self.errors_sent = 0
        # what each universe OID is bound to when the agent returns it: 0 INTEGER 1 (default), 1 noSuchObject,
        # 2 noSuchInstance, 3 OCTET STRING, 4 NULL
        self.values = list(values or [])
        self.markers_sent = 0
        self.requests = []       # (pdu tag, [oid tuples])
        self.revealed = set()    # OIDs the agent ever returned
        self.unknown_requested = []

    def f(self, oid, rep):
        try:
            q = self.requestable.index(tuple(oid))
        except ValueError:
            # an OID the model does not list (an implementation may probe below a root, e.g. for the next column of a table):
            # answered honestly with its successor in the universe
            self.unknown_requested.append(tuple(oid))
            later = [u for u in self.universe if u > tuple(oid)]
            return min(later) if later else None
        row = self.table[q]
        t = row[rep % len(row)]
        return None if t < 0 else self.universe[t]

    def value_of(self, oid, default):
        if not self.values:
            return default
        try:
            k = self.values[self.universe.index(tuple(oid)) % len(self.values)]
        except ValueError:
            return default
        if k in (1, 2):
            self.markers_sent += 1
        return {1: vagent.NSO, 2: vagent.NSI, 3: (vber.T_OCTETS, b"x"), 4: (vber.T_NULL, b"")}.get(k, default)

    async def __call__(self, endpoint, data, timeout=None, retries=None, loop=None):
        if len(self.requests) >= self.cap:
            raise vagent.CapExceeded("more than %d requests" % self.cap)
        try:
            msg = vber.parse_message(bytes(data))
        except vber.BerError as exc:
            raise vagent.AgentInternalError("client sent malformed BER: %s" % exc)
        pdu = msg["pdu"]
        oids = [o for o, _, _ in pdu["vbs"]]
        self.requests.append((pdu["tag"], oids))
        out = []
        val = (vber.T_INT, b"\x01")
        if len(self.requests) - 1 in self.error_at:
            es, ei = self.error_at[len(self.requests) - 1]
            self.errors_sent += 1
            return vber.enc_community_message(
                msg["version"], self.community,
                vber.enc_pdu(vber.PDU_RESPONSE, pdu["rid"], es, ei, [(o, vber.T_NULL, b"") for o in oids]))
        if len(self.requests) - 1 in self.empty_at:
            self.empty_sent += 1
            return vber.enc_community_message(
                msg["version"], self.community,
                vber.enc_pdu(vber.PDU_RESPONSE, pdu["rid"], 0, 0, []))
        if pdu["tag"] == vber.PDU_GETNEXT:
            for o in oids:
                y = self.f(o, 0)
                if y is None:
                    out.append((o,) + vagent.EOM)
                else:
                    self.revealed.add(y)
                    out.append((y,) + self.value_of(y, val))
        elif pdu["tag"] == vber.PDU_GETBULK:
            n, m = pdu["f1"], pdu["f2"]
            if n != 0:
                raise vagent.AgentInternalError("function agent: non-repeaters %d" % n)
            cur = list(oids)
            dead = [False] * len(cur)
            for rep in range(max(0, m)):
                for i in range(len(cur)):
                    y = None if dead[i] else self.f(cur[i], rep)
                    if y is None:
                        dead[i] = True
                        out.append((cur[i],) + vagent.EOM)
                    else:
                        self.revealed.add(y)
                        cur[i] = y
                        out.append((y,) + self.value_of(y, val))
                if all(dead) and self.stop_all_eom:
                    break
        else:
            raise vagent.AgentInternalError("function agent: PDU 0x%02x" % pdu["tag"])
        return vber.enc_community_message(
            msg["version"], self.community,
            vber.enc_pdu(vber.PDU_RESPONSE, pdu["rid"], 0, 0, out))
