"""vloop -- a virtual-time asyncio event loop with a scripted, recording
datagram endpoint factory.  It replaces exactly what ``send_udp`` / ``listen``
need from the event loop (``loop.create_datagram_endpoint`` and ``loop.time``);
the protocol objects are the real ones built by the factory the code under
test hands in.

Time model: ``loop.time()`` is virtual.  When the loop would block in the
selector for ``timeout`` seconds, virtual time advances by ``timeout`` instead.
Transport model (as asyncio's selector datagram transport): nothing is
delivered to the protocol after ``close()`` / ``abort()``; ``connection_lost``
is scheduled with ``call_soon`` exactly once."""
from __future__ import annotations

import asyncio
import selectors


class Deadlock(Exception):
    """the loop has nothing scheduled and nothing ready: the awaited call can
    never complete"""


class _VSelector:
    def __init__(self, loop, real):
        self._loop = loop
        self._real = real

    def select(self, timeout=None):
        if timeout is None:
            # only the self-pipe is registered; nothing can ever wake the loop
            raise Deadlock("event loop would block forever at virtual time %r" % self._loop._vtime)
        if timeout > 0:
            self._loop._vtime += timeout
        return self._real.select(0)

    def __getattr__(self, name):
        return getattr(self._real, name)


class FakeDatagramTransport(asyncio.DatagramTransport):
    def __init__(self, loop, protocol, remote_addr, local_addr, script):
        super().__init__()
        self.loop = loop
        self.protocol = protocol
        self.remote_addr = remote_addr
        self.local_addr = local_addr
        self.script = script          # outcome for this endpoint (dict) or None
        self.sent = []                # (virtual time, bytes, addr)
        self.closed = False
        self.close_calls = 0
        self.abort_calls = 0
        self.delivered = []           # what reached the protocol
        self.dropped_after_close = 0
        self.created_at = loop.time()

    # -- asyncio API ---------------------------------------------------------
    def get_extra_info(self, name, default=None):
        if name == "peername":
            # as socket.getpeername(): (host, port) for AF_INET, (host, port, flowinfo, scope_id) for AF_INET6
            if self.remote_addr and ":" in str(self.remote_addr[0]):
                return tuple(self.remote_addr[:2]) + (0, 0)
            return self.remote_addr or default
        if name == "sockname":
            if self.remote_addr and ":" in str(self.remote_addr[0]):
                return ("::1", 40000, 0, 0)
            return self.local_addr or ("127.0.0.1", 40000)
        return default

    def is_closing(self):
        return self.closed

    def sendto(self, data, addr=None):
        self.sent.append((self.loop.time(), bytes(data), addr))
        if self.closed:
            return
        # outcomes are scripted per TRANSMISSION (in global order), not per socket: an implementation that re-sends on
        # one socket sees the same network as one that opens a socket per attempt
        idx = self.loop.transmissions
        self.loop.transmissions += 1
        script = self.loop.scripts[idx] if idx < len(self.loop.scripts) else None
        if script:
            self.script = script
            self.loop._play(self, bytes(data))

    def _shutdown(self, exc=None):
        if self.closed:
            return
        self.closed = True
        self.loop.call_soon(self.protocol.connection_lost, exc)

    def close(self):
        self.close_calls += 1
        self._shutdown()

    def abort(self):
        self.abort_calls += 1
        self._shutdown()

    # -- deliveries from the scripted network ---------------------------------
    def net_datagram(self, data, addr):
        if self.closed:
            self.dropped_after_close += 1
            return
        self.delivered.append(("datagram", self.loop.time(), data))
        self.protocol.datagram_received(data, addr)

    def net_error(self, exc):
        if self.closed:
            self.dropped_after_close += 1
            return
        self.delivered.append(("error", self.loop.time(), repr(exc)))
        self.protocol.error_received(exc)

    def net_lost(self, exc):
        if self.closed:
            self.dropped_after_close += 1
            return
        self.delivered.append(("lost", self.loop.time(), repr(exc)))
        self.closed = True
        self.loop.call_soon(self.protocol.connection_lost, exc)


class VLoop(asyncio.SelectorEventLoop):
    """scripts: list of per-endpoint outcomes, consumed in creation order."""

    def __init__(self, scripts=(), reply=b"", timeout_unit=1.0):
        super().__init__(selectors.DefaultSelector())
        self._vtime = 0.0
        self._selector = _VSelector(self, self._selector)
        self.scripts = list(scripts)
        self.reply = reply
        self.unit = timeout_unit
        self.transports = []
        self.transmissions = 0
        self.callback_errors = []
        self.set_exception_handler(self._on_error)

    def time(self):
        return self._vtime

    def _on_error(self, loop, context):
        self.callback_errors.append("%s: %r" % (context.get("message"), context.get("exception")))

    async def create_datagram_endpoint(self, protocol_factory, local_addr=None, remote_addr=None, **kw):
        if kw.get("sock") is not None:
            # an implementation may create (and bind) its socket itself; the scripted endpoint replaces it
            try:
                local_addr = local_addr or kw["sock"].getsockname()
                kw["sock"].close()
            except OSError:
                pass
        protocol = protocol_factory()
        tr = FakeDatagramTransport(self, protocol, remote_addr, local_addr, None)
        self.transports.append(tr)
        # as asyncio's selector datagram transport: connection_made runs as a loop callback (an exception in it goes to the
        # loop's exception handler, not to the caller of create_datagram_endpoint)
        self.call_soon(protocol.connection_made, tr)
        await asyncio.sleep(0)
        return tr, protocol

    def _play(self, tr, request):
        if callable(self.reply):
            # the reply is computed from the request actually sent (e.g. by a reference agent)
            fn = self.reply
            self.reply = fn(request)
            try:
                return self._play(tr, request)
            finally:
                self.reply = fn
        s = tr.script
        kind = s["kind"]
        addr = tr.get_extra_info("peername") or ("192.0.2.1", 161)
        if kind in ("reply", "late", "empty"):
            data = b"" if (kind == "empty" or s.get("empty")) else self.reply
            self.call_later(s["d"], tr.net_datagram, data, addr)
        elif kind == "dup":
            self.call_later(s["d"], tr.net_datagram, self.reply, addr)
            self.call_later(s["d2"], tr.net_datagram, self.reply[::-1] or b"\x00", addr)
        elif kind == "icmp":
            self.call_later(s["d"], tr.net_error, OSError(s.get("errno", 111), "scripted ICMP error"))
        elif kind == "lost":
            self.call_later(s["d"], tr.net_lost, OSError(s.get("errno", 101), "scripted connection loss"))
        elif kind == "none":
            pass
        else:
            raise ValueError(kind)

    def drain(self, rounds=5):
        """let already-scheduled call_soon callbacks run (no time passes)"""
        for _ in range(rounds):
            self.call_soon(self.stop)
            self.run_forever()


def run_virtual(coro_fn, scripts, reply, **kw):
    """-> (outcome, loop) where outcome = ('ok', value, t) | ('exc', exception, t)"""
    loop = VLoop(scripts, reply, **kw)
    old = None
    try:
        try:
            old = asyncio.get_event_loop_policy().get_event_loop()
        except Exception:  # noqa
            old = None
        asyncio.set_event_loop(loop)
        try:
            value = loop.run_until_complete(coro_fn(loop))
            out = ("ok", value, loop.time())
        except Deadlock as e:
            out = ("deadlock", e, loop.time())
        except BaseException as e:  # noqa
            if isinstance(e, (KeyboardInterrupt, SystemExit)):
                raise
            out = ("exc", e, loop.time())
        t_end = loop.time()
        try:
            loop.drain()
        except Deadlock:
            pass
        return out[:2] + (t_end,), loop
    finally:
        asyncio.set_event_loop(old if old is not None and not old.is_closed() else None)
