"""vworld -- glue between JSON cases, the reference agent and the real
puresnmp client.  This is the only harness module (besides the checks) that
imports puresnmp; it uses puresnmp only as the *system under test* (building
clients, calling the API, reading results), never to decide what is right.
"""
from __future__ import annotations

import asyncio
import ipaddress
from datetime import timedelta

import vagent
import vber
from puresnmp import V1, V2C, V3, Auth, Client, Priv, PyWrapper  # noqa
from puresnmp.types import Counter, Counter64, Gauge, IpAddress, Opaque, TimeTicks
from x690.types import Integer, Null, ObjectIdentifier, OctetString

_LOOP = None


def loop():
    global _LOOP
    if _LOOP is None or _LOOP.is_closed():
        _LOOP = asyncio.new_event_loop()
        asyncio.set_event_loop(_LOOP)
    return _LOOP


def run(coro):
    """Run a coroutine to completion on the per-process loop."""
    return loop().run_until_complete(coro)


async def collect(agen, limit=None):
    out = []
    async for x in agen:
        out.append(x)
        if limit is not None and len(out) >= limit:
            break
    return out


def OID(t) -> ObjectIdentifier:
    return ObjectIdentifier(".".join(str(x) for x in t))


def oid_tuple(o) -> tuple:
    s = str(o.value if hasattr(o, "value") else o)
    s = s.strip(".")
    return tuple(int(p) for p in s.split(".")) if s else ()


def _canon_table():
    """the documented value classes under the names the documentation uses for them (a class may be renamed as long as the
    documented name still refers to it)"""
    import puresnmp.pdu as _pdu
    import puresnmp.types as _pt
    import x690.types as _xt

    out = []
    for mod, names in ((_pt, ("Counter", "Counter64", "Gauge", "TimeTicks", "IpAddress", "Opaque")),
                       (_xt, ("Integer", "OctetString", "Null", "ObjectIdentifier")),
                       (_pdu, ("NoSuchObject", "NoSuchInstance", "EndOfMibView"))):
        for n in names:
            cls = getattr(mod, n, None)
            if cls is not None:
                out.append((cls, n))
    return out


_CANON = []


def _canon_name(x):
    if not _CANON:
        _CANON.extend(_canon_table())
    for cls, n in _CANON:
        if type(x) is cls:
            return n
    return type(x).__name__


class Unreadable(Exception):
    """the API handed out an object whose value cannot be read (values are decoded lazily: the exception belongs to the
    code under test, not to the harness)"""


def observe(x):
    """(type name, python value) of an object returned by the raw API, with
    OIDs normalised to integer tuples."""
    name = _canon_name(x)
    try:
        v = x.value
        if name == "ObjectIdentifier":
            v = oid_tuple(x)
    except Exception as e:  # noqa
        raise Unreadable("reading .value of the returned %s object raised %s: %s" % (name, type(e).__name__, e)) from e
    return name, v


def observe_vb(vb):
    return (oid_tuple(vb[0]),) + observe(vb[1])


def expected(tag, content):
    """What observe() must give for the value (tag, content) per vber."""
    return vber.typed_value(tag, content)


_CTORS = {
    vber.T_INT: Integer,
    vber.T_OCTETS: OctetString,
    vber.T_OID: None,
    vber.T_IPADDR: IpAddress,
    vber.T_COUNTER: Counter,
    vber.T_GAUGE: Gauge,
    vber.T_TICKS: TimeTicks,
    vber.T_OPAQUE: Opaque,
    vber.T_COUNTER64: Counter64,
}


def make_value(tag, content):
    """Build the puresnmp value object a caller would pass to SET for the
    value that vber reads from (tag, content)."""
    name, val = vber.typed_value(tag, content)
    if tag == vber.T_NULL:
        return Null()
    if tag == vber.T_OID:
        return OID(val)
    if tag == vber.T_TICKS and val % 2 == 1:
        # callers build TimeTicks from a timedelta as often as from a number (a fixed function of the value, so that a
        # replay file reproduces it)
        from datetime import timedelta

        return _CTORS[tag](timedelta(milliseconds=10 * val))
    return _CTORS[tag](val)


def creds(spec):
    v = spec["v"]
    if v == "1":
        return V1(spec.get("community", "public"))
    if v == "2c":
        return V2C(spec.get("community", "public"))
    if v == "3":
        auth = priv = None
        if spec.get("algo"):
            auth = Auth(bytes.fromhex(spec["auth_pw"]), spec["algo"])
        if spec.get("priv_pw"):
            priv = Priv(bytes.fromhex(spec["priv_pw"]), spec.get("priv", "verifstream"))
        return V3(spec.get("user", "usr"), auth, priv)
    raise ValueError(v)


def agent_user(spec):
    return vagent.User(
        spec.get("user", "usr").encode("ascii"),
        algo=spec.get("algo"),
        auth_pw=bytes.fromhex(spec["auth_pw"]) if spec.get("algo") else None,
        priv_pw=bytes.fromhex(spec["priv_pw"]) if spec.get("priv_pw") else None,
        priv=spec.get("priv", "verifstream"),
    )


def db_from_case(rows):
    """rows: [[oid list, tag, hex content], ...] -> {oid tuple: (tag, bytes)}"""
    return {tuple(o): (t, bytes.fromhex(h)) for o, t, h in rows}


def make_world(proto, db, **agent_kw):
    """-> (agent, client) for a protocol spec and database."""
    kw = dict(agent_kw)
    if proto["v"] == "3":
        kw.setdefault("users", [agent_user(proto)])
        if proto.get("engine_id"):
            kw.setdefault("engine_id", bytes.fromhex(proto["engine_id"]))
    else:
        kw.setdefault("community", proto.get("community", "public").encode("ascii"))
    agent = vagent.Agent(db, **kw)
    client = Client(
        "192.0.2.1", creds(proto.get("via") or proto), sender=agent,
        context_name=bytes.fromhex(proto.get("ctx_name", "")),
        engine_id=bytes.fromhex(proto.get("ctx_engine", "")),
    )
    if proto.get("via"):
        # history: created for another protocol version / community, then
        # permanently re-configured before use
        client.configure(credentials=creds(proto))
    return agent, client


V2C_PROTO = {"v": "2c", "community": "public"}
V1_PROTO = {"v": "1", "community": "public"}
V3_PROTOS = [
    {"v": "3", "user": "noauth"},
    {"v": "3", "user": "md5user", "algo": "md5", "auth_pw": b"authpass-md5".hex()},
    {"v": "3", "user": "shauser", "algo": "sha1", "auth_pw": b"authpass-sha".hex()},
    {"v": "3", "user": "md5priv", "algo": "md5", "auth_pw": b"authpass-md5".hex(),
     "priv_pw": b"privpass-md5".hex(), "priv": "verifstream"},
    {"v": "3", "user": "shapriv", "algo": "sha1", "auth_pw": b"authpass-sha".hex(),
     "priv_pw": b"privpass-sha".hex(), "priv": "verifblock"},
]


def proto_label(p) -> str:
    if p["v"] != "3":
        return "v" + p["v"]
    lvl = "authPriv" if p.get("priv_pw") else "authNoPriv" if p.get("algo") else "noAuthNoPriv"
    return "v3-" + lvl + ("-" + p["algo"] if p.get("algo") else "")


# --------------------------------------------------------------------------
# cross-property known finding F10b (DESIGN 1.5): an authentic v3 response in
# which a re-serialised TLV has content length exactly 127 is refused with
# AuthenticationError.  Trigger predicate, evaluated with vber only.


def reencoded_len_127(msg: bytes) -> bool:
    try:
        m = vber.parse_message(msg)
    except vber.BerError:
        return False
    if m.get("version") != 3:
        return False
    lens = [m["lengths"]["message"], len(m["sec_params_raw"]), len(m["body"]),
            len(m["engine_id"]), len(m["user"]), len(m["salt"])]
    try:
        lens.append(len(vber.read_one(m["sec_params_raw"])[1]))
    except vber.BerError:
        pass
    if "pdu" in m:
        lens += [len(m["ctx_engine"]), len(m["ctx_name"]), m["pdu_len"]]
    return 127 in lens


def f10b_excusable(agent, exc) -> bool:
    """True iff the client raised AuthenticationError for a response that has
    the F10b trigger (see DESIGN 1.5: both trigger and signature needed)."""
    if type(exc).__name__ != "AuthenticationError":
        return False
    for req in reversed(agent.log):
        resp = req.get("delivered", req.get("response"))
        if resp is not None:
            return reencoded_len_127(resp)
    return False
