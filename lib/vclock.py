"""vclock -- a replaceable wall clock.  ``install()`` is called by the
runner *before* puresnmp is imported, so that both ``time.time()`` looked up
at call time and ``from time import time`` bound at import time reach the
shim.  Without an override the shim is the real clock.  The event loop lives
on ``time.monotonic`` and is not affected."""
from __future__ import annotations

import time as _time

_real_time = _time.time
_real_time_ns = _time.time_ns
_override = None
reads = 0


def time():
    global reads
    if _override is None:
        return _real_time()
    reads += 1
    return float(_override())


def time_ns():
    if _override is None:
        return _real_time_ns()
    return int(time() * 1e9)


_real_monotonic = _time.monotonic
_real_monotonic_ns = _time.monotonic_ns
_real_perf = _time.perf_counter
_real_perf_ns = _time.perf_counter_ns
offset = 0.0      # seconds added to every monotonic-style clock (and to the wall clock of ``virtual``)


def monotonic():
    return _real_monotonic() + offset


def monotonic_ns():
    return _real_monotonic_ns() + int(offset * 1e9)


def perf_counter():
    return _real_perf() + offset


def perf_counter_ns():
    return _real_perf_ns() + int(offset * 1e9)


def install() -> None:
    if _time.time is not time:
        _time.time = time
        _time.time_ns = time_ns
        _time.monotonic = monotonic
        _time.monotonic_ns = monotonic_ns
        _time.perf_counter = perf_counter
        _time.perf_counter_ns = perf_counter_ns


class virtual:
    """context manager: one virtual time line for every clock source the
    client could consult.  The wall clock reads ``start + offset``; the
    monotonic / perf_counter clocks (and therefore ``loop.time()``) read
    their real value + offset.  ``advance(dt)`` moves all of them."""

    def __init__(self, start=1_700_000_000.0):
        self.start = float(start)

    def now(self):
        return self.start + offset

    def advance(self, dt):
        global offset
        offset += float(dt)

    def __enter__(self):
        global offset
        offset = 0.0
        set_clock(self.now)
        return self

    def __exit__(self, *a):
        global offset
        offset = 0.0
        set_clock(None)
        return False


def set_clock(fn) -> None:
    """fn() -> seconds, or None for the real clock."""
    global _override, reads
    _override = fn
    reads = 0


class fixed:
    """context manager: the clock reads ``value`` (or successive values of an
    iterable schedule of increments)"""

    def __init__(self, value, increments=None):
        self.now = float(value)
        self.inc = list(increments or [])
        self.i = 0

    def _read(self):
        v = self.now
        if self.inc:
            self.now += self.inc[self.i % len(self.inc)]
            self.i += 1
        return v

    def __enter__(self):
        set_clock(self._read)
        return self

    def __exit__(self, *a):
        set_clock(None)
        return False
